"""C36 (T) extractor: access table (role, location, R|W, lockset) from the clang AST of the daemon.

Pipeline
  1. `clang++-14 -std=c++20 -fsyntax-only -Xclang -ast-dump=json -Xclang -ast-dump-filter=<ns>` per
     translation unit (cached by content hash under .build/c36/), pruned to a compact IR:
     records with their fields, function/method/lambda bodies, namespace-scope variables.
  2. Per function: a *summary* = ordered events
        acc   (location, R|W, source line, locks acquired lexically around it in this function)
        call  (callee, argument->parameter alias bindings, locks held lexically)
        cbcall(invocation of a std::function stored in a location)
     using a flow-insensitive local alias analysis (references, pointers, iterators, smart
     pointers, views, structured bindings, range-for variables, local containers of pointers).
  3. Per thread role (explicit entry-point table in props/C36.py): depth-first traversal of the
     call graph from the entry points carrying the set of held locks; every reachable access
     becomes a row (role, location, kind, held locks).

Locations are `Class::member` of the (singleton) objects that make up the node, `Class::member.f`
for the fields of `Config`-typed members, `Session::field` (all session objects merged) and
`<file>::<global>` for namespace-scope variables of the analysed files.  Atomics and mutexes are
not locations.

Known gaps (trusted base; see notes/C36.md): aliasing beyond the local analysis (pointers stored
in member containers, aliases returned through out-parameters), functions outside the analysed
translation units are assumed to touch shared state only through their arguments, happens-before
by thread creation/join is not modelled (pure lockset), constructors/destructors are not part of
any role, templates are analysed as instantiated in the AST only where clang prints the body.
"""
from __future__ import annotations

import concurrent.futures as cf
import gzip
import json
import os
import re
import subprocess
from pathlib import Path
from typing import Optional

from tools import vlib

EXTRACT_VERSION = "c36-extract-9"
CLANG = os.environ.get("VERIF_CLANG", "clang++-14")

# translation units and the -ast-dump-filter used for each
TUS = [
    ("src/core/Node.cpp", "ephemeralnet"),
    ("src/network/KeyManager.cpp", "ephemeralnet"),
    ("src/network/SessionManager.cpp", "ephemeralnet"),
    ("src/network/ReputationManager.cpp", "ephemeralnet"),
    ("src/core/ChunkStore.cpp", "ephemeralnet"),
    ("src/dht/KademliaTable.cpp", "ephemeralnet"),
    ("src/core/SwarmCoordinator.cpp", "ephemeralnet"),
    ("src/network/NatTraversal.cpp", "ephemeralnet"),
    ("src/network/RelayClient.cpp", "ephemeralnet"),
    ("src/network/AdvertiseDiscovery.cpp", "ephemeralnet"),
    ("src/crypto/CryptoManager.cpp", "ephemeralnet"),
    ("src/daemon/ControlServer.cpp", "ephemeralnet"),
    ("src/main.cpp", "main"),
]

# classes whose data members are shared locations (one object of each per daemon process)
SINGLETONS = [
    "ephemeralnet::Node", "ephemeralnet::network::KeyManager", "ephemeralnet::network::ReputationManager",
    "ephemeralnet::network::SessionManager", "ephemeralnet::ChunkStore", "ephemeralnet::KademliaTable",
    "ephemeralnet::SwarmCoordinator", "ephemeralnet::network::NatTraversalManager",
    "ephemeralnet::network::RelayClient", "ephemeralnet::crypto::CryptoManager",
    "ephemeralnet::daemon::ControlServer::Impl",
]
# classes whose methods are followed (call graph) although their own fields are not node state
FOLLOW_ONLY = ["ephemeralnet::daemon::ControlServer"]
# classes with many instances whose instances are merged into one abstract object
MULTI_INSTANCE = ["ephemeralnet::network::SessionManager::Session"]
# struct types whose fields are tracked individually when they are the type of a member
SUBFIELD_TYPES = ["ephemeralnet::Config"]
# reference members that alias another object's member (checked against the AST: every reference
# member of an analysed class must be listed here or is reported as a gap)
REF_MEMBER_ALIASES = {
    "ephemeralnet::SwarmCoordinator::config_": "ephemeralnet::Node::config_",
    "ephemeralnet::network::NatTraversalManager::config_": "ephemeralnet::Node::config_",
    "ephemeralnet::network::RelayClient::config_": "ephemeralnet::Node::config_",
    "ephemeralnet::network::RelayClient::sessions_": None,   # the SessionManager object itself (singleton class)
    "ephemeralnet::daemon::ControlServer::Impl::node_": None,  # the Node object itself
}
# lock identities: a reference member that is bound to another mutex
LOCK_ALIASES = {
    "ephemeralnet::daemon::ControlServer::Impl::node_mutex_": "main::node_mutex",
}

READONLY_NONCONST = {
    "find", "begin", "end", "rbegin", "rend", "cbegin", "cend", "at", "front", "back", "data", "size", "empty",
    "count", "contains", "equal_range", "lower_bound", "upper_bound", "value", "get", "has_value", "operator bool",
    "c_str", "load", "joinable", "length", "max_size", "capacity", "key_eq", "hash_function", "bucket_count",
    "value_or", "str", "native_handle", "get_id", "first", "second", "operator->", "operator*", "owner_before",
    "use_count", "top", "peek", "good", "eof", "fail", "is_open", "tellg", "rdbuf", "base",
}
WRITE_OPERATORS = {"operator=", "operator+=", "operator-=", "operator*=", "operator/=", "operator%=", "operator|=",
                   "operator&=", "operator^=", "operator<<=", "operator>>=", "operator++", "operator--"}
LOCK_TYPES = ("scoped_lock", "lock_guard", "unique_lock", "shared_lock", "SchedulerLock")
ALIAS_TYPE_RE = re.compile(r"(&&?$|\*\s*(const)?$|iterator|_Node_iterator|__normal_iterator|std::span<|basic_string_view|"
                           r"string_view|reference_wrapper|shared_ptr<|unique_ptr<|weak_ptr<)")
FUNC_TYPE_RE = re.compile(r"(std::function<|MessageHandler|HandshakeHandler|HandshakeBuilder|StopCallback)")
SKIP_TYPE_RE = re.compile(r"(std::atomic|atomic<|mutex|condition_variable)")


# --------------------------------------------------------------------------------------
# 1. clang dump -> pruned IR (cached)
# --------------------------------------------------------------------------------------

def _clang_json(src: Path, filt: str) -> str:
    cmd = [CLANG, "-std=c++20", f"-I{vlib.REPO}/include", f"-I{vlib.REPO}/src", f"-I{vlib.REPO}",
           "-fsyntax-only", "-w", "-Xclang", "-ast-dump=json", "-Xclang", f"-ast-dump-filter={filt}", str(src)]
    r = subprocess.run(cmd, capture_output=True, text=True, errors="replace")
    if r.returncode != 0 and not r.stdout.strip():
        raise RuntimeError(f"clang failed on {src}: {r.stderr[-600:]}")
    return r.stdout


def _split_objects(text: str) -> list:
    dec = json.JSONDecoder()
    i, n, out = 0, len(text), []
    while i < n:
        while i < n and text[i] in " \n\r\t":
            i += 1
        if i >= n:
            break
        if text[i] != "{":
            j = text.find("\n", i)
            i = n if j < 0 else j + 1
            continue
        obj, i = dec.raw_decode(text, i)
        out.append(obj)
    return out


class _Pruner:
    """Walks the clang JSON in document order (needed to undo the delta encoding of source
    locations) and builds the IR of one translation unit."""

    KEEP_KINDS_WITH_BODY = ("FunctionDecl", "CXXMethodDecl", "CXXConstructorDecl", "CXXDestructorDecl",
                            "CXXConversionDecl")

    def __init__(self, tu: str):
        self.tu = tu
        self.file = None
        self.line = None
        self.records: dict[str, dict] = {}       # qualname -> {id, fields:[{name,t,dt,id}], bases}
        self.rec_by_id: dict[str, str] = {}
        self.functions: list[dict] = []
        self.fn_ids: dict[str, str] = {}          # decl id -> function key
        self.field_ids: dict[str, list] = {}      # decl id -> [record, name, type]
        self.globals: dict[str, list] = {}        # decl id -> [qualname, type]
        self.var_types: dict[str, str] = {}
        self._lambda_counter: dict[str, int] = {}

    # -- locations ------------------------------------------------------------------
    def _loc(self, o):
        if not isinstance(o, dict):
            return
        if "spellingLoc" in o or "expansionLoc" in o:
            self._loc(o.get("spellingLoc"))
            self._loc(o.get("expansionLoc"))
            return
        if "file" in o:
            self.file = o["file"]
        if "line" in o:
            self.line = o["line"]

    def _begin(self, n):
        """update location state from a node's loc/range; return (file, line) of its begin"""
        self._loc(n.get("loc"))
        rg = n.get("range") or {}
        self._loc(rg.get("begin"))
        f, l = self.file, self.line
        self._loc(rg.get("end"))
        return f, l

    # -- pruning of statements/expressions ------------------------------------------
    def prune(self, n, fnkey):
        f, l = self._begin(n)
        k = n.get("kind")
        out = {"k": k, "l": l}
        if f and not f.endswith(self.tu):
            out["f"] = f
        ty = n.get("type") or {}
        if "qualType" in ty:
            out["t"] = ty["qualType"]
            if "desugaredQualType" in ty and ty["desugaredQualType"] != ty["qualType"]:
                out["dt"] = ty["desugaredQualType"]
        for a, b in (("name", "n"), ("opcode", "op"), ("valueCategory", "vc"), ("castKind", "ck"), ("id", "id"),
                     ("isArrow", "arrow"), ("referencedMemberDecl", "mref"), ("isPostfix", "post"),
                     ("init", "init"), ("hasElse", "helse"), ("hasInit", "hinit"), ("hasVar", "hvar")):
            if a in n:
                out[b] = n[a]
        rd = n.get("referencedDecl")
        if rd:
            out["ref"] = {"id": rd.get("id"), "k": rd.get("kind"), "n": rd.get("name"),
                          "t": (rd.get("type") or {}).get("qualType")}
        if k == "LambdaExpr":
            idx = self._lambda_counter.get(fnkey, 0) + 1
            self._lambda_counter[fnkey] = idx
            lkey = f"{fnkey}::lambda#{idx}"
            inner = n.get("inner", [])
            rec = inner[0] if inner and inner[0].get("kind") == "CXXRecordDecl" else None
            op = None
            if rec:
                # walk the closure record in document order to keep the location state right
                self._begin(rec)
                for c in rec.get("inner", []):
                    if c.get("kind") == "CXXMethodDecl" and c.get("name") == "operator()" and op is None:
                        op = self._function(c, lkey, cls=None, lam=True)
                    elif c.get("kind") == "FunctionTemplateDecl" and c.get("name") == "operator()" and op is None:
                        self._begin(c)
                        for cc in c.get("inner", []) or []:
                            if cc.get("kind") == "CXXMethodDecl" and op is None:
                                op = self._function(cc, lkey, cls=None, lam=True)
                                if op is not None:
                                    self.fn_ids[c.get("id")] = lkey
                            else:
                                self._skip(cc)
                    else:
                        self._skip(c)
            out["lam"] = lkey
            caps = []
            for c in inner[1:]:
                if c.get("kind") == "CompoundStmt":
                    self._skip(c)
                else:
                    caps.append(self.prune(c, fnkey))
            out["in"] = caps
            return out
        if k in ("CXXRecordDecl", "TypedefDecl", "TypeAliasDecl", "UsingDecl", "StaticAssertDecl", "EnumDecl"):
            # local type declarations: register records (local structs such as ReadyFetch), no statements inside
            if k == "CXXRecordDecl":
                self._record(n, [fnkey])
            else:
                self._skip(n, first=False)
            return out
        inner = n.get("inner")
        if inner:
            out["in"] = [self.prune(c, fnkey) for c in inner]
        return out

    def _skip(self, n, first=True):
        if first:
            self._begin(n)
        for c in n.get("inner", []) or []:
            self._skip(c)

    # -- declarations ---------------------------------------------------------------
    def _function(self, n, key, cls, lam=False):
        f, l = self._begin(n)
        params, body, inits = [], None, []
        for c in n.get("inner", []) or []:
            ck = c.get("kind")
            if ck == "ParmVarDecl":
                self._begin(c)
                ty = c.get("type") or {}
                params.append({"id": c.get("id"), "n": c.get("name", ""), "t": ty.get("qualType", ""),
                               "dt": ty.get("desugaredQualType", ty.get("qualType", ""))})
                for cc in c.get("inner", []) or []:
                    self._skip(cc)
            elif ck == "CompoundStmt" or ck == "CXXTryStmt":
                body = self.prune(c, key)
            elif ck == "CXXCtorInitializer":
                self._skip(c)
            else:
                self._skip(c)
        self.fn_ids[n.get("id")] = key
        if n.get("previousDecl"):
            self.fn_ids.setdefault(n["previousDecl"], key)
        if body is None:
            return None
        fn = {"key": key, "cls": cls, "params": params, "body": body, "file": f, "line": l, "tu": self.tu,
              "kind": n.get("kind"), "lam": lam, "rt": ((n.get("type") or {}).get("qualType") or "")}
        self.functions.append(fn)
        return fn

    def _record(self, n, scope):
        self._begin(n)
        name = n.get("name")
        if n.get("isImplicit") or not name:
            self._skip(n, first=False)
            return
        if n.get("parentDeclContextId") in self.rec_by_id:
            scope = self.rec_by_id[n["parentDeclContextId"]].split("::")
        q = "::".join(scope + [name])
        if not n.get("completeDefinition") and not n.get("inner"):
            self.rec_by_id.setdefault(n.get("id"), q)
            return
        self.rec_by_id[n.get("id")] = q
        if n.get("previousDecl"):
            self.rec_by_id.setdefault(n["previousDecl"], q)
        rec = self.records.setdefault(q, {"fields": [], "id": n.get("id")})
        for c in n.get("inner", []) or []:
            self._decl(c, scope + [name], q)

    def _decl(self, n, scope, cls=None):
        k = n.get("kind")
        if k == "NamespaceDecl":
            self._begin(n)
            nm = n.get("name") or f"(anon:{Path(self.tu).name})"
            for c in n.get("inner", []) or []:
                self._decl(c, scope + [nm])
        elif k == "CXXRecordDecl":
            self._record(n, scope)
        elif k == "FieldDecl":
            self._begin(n)
            ty = n.get("type") or {}
            if cls is not None and n.get("name"):
                ent = {"n": n["name"], "t": ty.get("qualType", ""), "dt": ty.get("desugaredQualType", ty.get("qualType", "")),
                       "id": n.get("id")}
                if not any(f["n"] == ent["n"] for f in self.records[cls]["fields"]):
                    self.records[cls]["fields"].append(ent)
                self.field_ids[n.get("id")] = [cls, n["name"], ent["dt"] or ent["t"]]
            for c in n.get("inner", []) or []:
                self._skip(c)
        elif k in self.KEEP_KINDS_WITH_BODY:
            name = n.get("name", "")
            owner = cls
            if owner is None and n.get("parentDeclContextId") in self.rec_by_id:
                owner = self.rec_by_id[n["parentDeclContextId"]]
            if owner is not None:
                key = f"{owner}::{name}" if k != "CXXConstructorDecl" else f"{owner}::{owner.split('::')[-1]}"
                if k == "CXXDestructorDecl":
                    key = f"{owner}::~{owner.split('::')[-1]}"
            else:
                key = "::".join(scope + [name])
            self._function(n, key, owner)
        elif k == "VarDecl":
            self._begin(n)
            ty = n.get("type") or {}
            if cls is None:
                q = "::".join(scope + [n.get("name", "")])
                self.globals[n.get("id")] = [q, ty.get("desugaredQualType", ty.get("qualType", "")),
                                             n.get("tls") or ("thread_local" if n.get("tls") else "")]
                if n.get("tls"):
                    self.globals[n.get("id")][2] = "tls"
            for c in n.get("inner", []) or []:
                self._skip(c)
        elif k in ("FunctionTemplateDecl", "ClassTemplateDecl"):
            self._begin(n)
            for c in n.get("inner", []) or []:
                if c.get("kind") in self.KEEP_KINDS_WITH_BODY or c.get("kind") == "CXXRecordDecl":
                    self._decl(c, scope, cls)
                else:
                    self._skip(c)
        elif k == "LinkageSpecDecl":
            self._begin(n)
            for c in n.get("inner", []) or []:
                self._decl(c, scope, cls)
        else:
            self._skip(n)

    def run(self, objs, only_function: Optional[str] = None):
        for o in objs:
            if only_function is not None:
                if o.get("kind") == "FunctionDecl" and o.get("name") == only_function:
                    self._decl(o, [])
                else:
                    self._skip(o)
            else:
                self._decl(o, [])
        return {"tu": self.tu, "records": self.records, "functions": self.functions, "fn_ids": self.fn_ids,
                "field_ids": self.field_ids, "globals": self.globals, "rec_by_id": self.rec_by_id}


def load_tu(rel: str, filt: str) -> dict:
    src = vlib.REPO / rel
    key = vlib.sha(EXTRACT_VERSION, CLANG, rel, filt, src.read_bytes(), vlib.tree_hash("include"))[:32]
    cache = vlib.BUILD / "c36" / f"{Path(rel).stem}-{key}.json.gz"
    if cache.exists():
        with gzip.open(cache, "rt") as f:
            return json.load(f)
    vlib.log(f"C36 extractor: clang AST dump of {rel}")
    objs = _split_objects(_clang_json(src, filt))
    ir = _Pruner(rel).run(objs, only_function="main" if filt == "main" else None)
    cache.parent.mkdir(parents=True, exist_ok=True)
    tmp = cache.with_suffix(f".{os.getpid()}.tmp")
    with gzip.open(tmp, "wt") as f:
        json.dump(ir, f)
    os.replace(tmp, cache)
    return ir


def load_all(jobs: int = 4) -> list[dict]:
    with cf.ThreadPoolExecutor(max_workers=max(1, min(jobs, 4))) as ex:
        return list(ex.map(lambda a: load_tu(*a), TUS))


# --------------------------------------------------------------------------------------
# 2. per-function summaries
# --------------------------------------------------------------------------------------

def strip_type(t: str) -> str:
    t = t or ""
    t = re.sub(r"\b(const|volatile|struct|class)\b", "", t)
    t = t.replace("&", "").replace("*", "").strip()
    return re.sub(r"\s+", " ", t)


class Program:
    """All translation units merged: records, functions by key, per-TU id maps."""

    def __init__(self, tus: list[dict]):
        self.tus = {t["tu"]: t for t in tus}
        self.records: dict[str, dict] = {}
        self.functions: dict[str, dict] = {}
        for t in tus:
            for q, r in t["records"].items():
                if q not in self.records or len(r["fields"]) > len(self.records[q]["fields"]):
                    self.records[q] = r
            for fn in t["functions"]:
                # prefer the definition that lives in its own .cpp over header copies seen from other TUs
                if fn["key"] not in self.functions:
                    self.functions[fn["key"]] = fn
        self.by_short: dict[str, list[str]] = {}
        for q in self.records:
            self.by_short.setdefault(q.split("::")[-1], []).append(q)
        self.gaps: list[str] = []
        self.summaries: dict[str, dict] = {}
        self.ret_roots: dict[str, set] = {}
        self.unanalysed_calls: set[str] = set()
        self._tls: dict[str, set] = {}

    def thread_locals(self, tu: str) -> set:
        if tu not in self._tls:
            try:
                txt = vlib._strip_comments((vlib.REPO / tu).read_text(errors="replace"))
            except OSError:
                txt = ""
            self._tls[tu] = set(re.findall(r"\bthread_local\s+[\w:<>, ]+?\s+(\w+)\s*(?:=|;|\{)", txt))
        return self._tls[tu]

    def record_of_type(self, t: str) -> Optional[str]:
        s = strip_type(t)
        s = re.sub(r"<.*>$", "", s) if s.startswith("std::") else s
        if s in self.records:
            return s
        # smart pointers / optional to a record
        m = re.search(r"(?:shared_ptr|unique_ptr|weak_ptr|optional)<\s*([^<>,]+?)\s*(?:,.*)?>", t or "")
        if m:
            return self.record_of_type(m.group(1))
        short = s.split("::")[-1]
        cands = [q for q in self.by_short.get(short, []) if q.endswith("::" + s) or q == s or s.endswith(q)]
        if len(cands) == 1:
            return cands[0]
        if len(cands) > 1:
            cands.sort(key=len)
            for q in cands:
                if q.endswith(s):
                    return q
        return None


def is_subfield_root(prog, loc: str) -> bool:
    """is `loc` a member of struct type whose fields are tracked individually (Config)?"""
    if "." in loc:
        return False
    cls, _, fname = loc.rpartition("::")
    rec = prog.records.get(cls)
    if not rec:
        return False
    for f in rec["fields"]:
        if f["n"] == fname:
            t = f["dt"] or f["t"] or ""
            if re.search(r"(vector|map|optional|deque|set|shared_ptr|unique_ptr)<", t):
                return False
            return prog.record_of_type(t) in SUBFIELD_TYPES
    return False


F = "F"   # field / global location tag
P = "P"   # parameter-rooted tag: (P, fnkey, index)


class FnAnalysis:
    """Analysis of one top-level function together with the lambdas nested in it."""

    def __init__(self, prog: Program, fn: dict):
        self.prog = prog
        self.fn = fn
        self.tu = prog.tus[fn["tu"]]
        self.fn_ids = self.tu["fn_ids"]
        self.field_ids = self.tu["field_ids"]
        self.globals = self.tu["globals"]
        self.roots: dict[str, set] = {}        # local var id -> set of roots
        self.var_type: dict[str, str] = {}
        self.lambda_vars: dict[str, str] = {}  # var id -> lambda key
        self.froots: dict[str, set] = {}       # std::function-typed local/param id -> where its value comes from
        self.fresh: dict[str, int] = {}        # var id -> escape line
        self.param_index: dict[str, tuple] = {}
        # lock objects (unique_lock & co.): var id -> (mutex ids, recursive); flow-sensitive overlay on the
        # lexical lock set: objects explicitly unlock()ed / release()d, deferred objects explicitly lock()ed
        self.lockvars: dict[str, tuple] = {}
        self.ov_unlocked: dict[str, tuple] = {}
        self.ov_locked: dict[str, tuple] = {}
        self.scope_stack: list[list] = [[]]

    # ---- helpers ------------------------------------------------------------------
    @staticmethod
    def ty(n) -> str:
        return n.get("dt") or n.get("t") or ""

    @staticmethod
    def unwrap(n):
        while n.get("k") in ("ImplicitCastExpr", "ParenExpr", "ExprWithCleanups", "MaterializeTemporaryExpr",
                             "CXXBindTemporaryExpr", "ConstantExpr", "CXXFunctionalCastExpr", "CXXStaticCastExpr",
                             "CStyleCastExpr", "CXXConstCastExpr", "CXXReinterpretCastExpr") and n.get("in"):
            if n.get("k") == "ImplicitCastExpr" and n.get("ck") == "LValueToRValue":
                break
            n = n["in"][0]
        return n

    def is_alias_type(self, t: str) -> bool:
        t = self._strip_typed_pointers(t or "")
        if FUNC_TYPE_RE.search(t) and not re.search(r"(shared_ptr<|unique_ptr<|vector<|map<)", t):
            return False
        return bool(ALIAS_TYPE_RE.search(t))

    def _strip_typed_pointers(self, t: str) -> str:
        """smart pointers to objects of the tracked classes carry no memory alias: the fields they
        lead to are locations by type (`Session::field`)"""
        def repl(m):
            rec = self.prog.record_of_type(m.group(2))
            return " " if rec in SINGLETONS or rec in MULTI_INSTANCE else m.group(0)
        return re.sub(r"(?:std::)?(shared_ptr|unique_ptr|weak_ptr)<\s*([\w:]+)\s*>", repl, t)

    @staticmethod
    def is_func_type(t: str) -> bool:
        return bool(FUNC_TYPE_RE.search(t or ""))

    def field_loc(self, cls: str, name: str):
        q = f"{cls}::{name}"
        if q in REF_MEMBER_ALIASES and REF_MEMBER_ALIASES[q]:
            q = REF_MEMBER_ALIASES[q]
        return (F, q)

    def member_info(self, n):
        """(record, field name, field type) of a MemberExpr naming a data member, else None"""
        mref = n.get("mref")
        if mref in self.field_ids:
            return self.field_ids[mref]
        if mref in self.fn_ids:
            return None
        base = n["in"][0] if n.get("in") else None
        if base is None or not n.get("n"):
            return None
        rec = self.prog.record_of_type(self.ty(base))
        if rec:
            for f in self.prog.records[rec]["fields"]:
                if f["n"] == n["n"]:
                    return [rec, f["n"], f["dt"] or f["t"]]
        if "bound member function type" in (n.get("t") or "") or "<overloaded function type>" in (n.get("t") or ""):
            return None
        # a data member of a record we have no declaration for (std::pair::second, ...)
        return [None, n["n"], self.ty(n)]

    # ---- roots of an lvalue / pointer-ish expression ---------------------------------
    def roots_of(self, n, depth=0) -> Optional[set]:
        """Set of roots the expression may denote/point into; None if it denotes no trackable
        object (a pure value); empty set = purely local object."""
        if depth > 60:
            return set()
        k = n.get("k")
        if k in ("ImplicitCastExpr", "ParenExpr", "ExprWithCleanups", "MaterializeTemporaryExpr",
                 "CXXBindTemporaryExpr", "ConstantExpr", "CXXFunctionalCastExpr", "CXXStaticCastExpr",
                 "CStyleCastExpr", "CXXConstCastExpr", "CXXReinterpretCastExpr", "CXXDynamicCastExpr"):
            return self.roots_of(n["in"][0], depth + 1) if n.get("in") else None
        if k == "CXXThisExpr":
            return {("THIS",)}
        if k == "DeclRefExpr":
            ref = n.get("ref") or {}
            rid = ref.get("id")
            if rid in self.globals:
                g = self.globals[rid]
                if g[2] == "tls" or SKIP_TYPE_RE.search(g[1] or ""):
                    return set()
                if re.match(r"\s*const\b", g[1] or "") or "constexpr" in (g[1] or ""):
                    return set()
                return {(F, g[0])}
            if rid in self.roots:
                return set(self.roots[rid])
            if ref.get("k") == "VarDecl" and rid not in self.var_type:
                # a namespace-scope variable outside the dumped namespaces (file-static globals)
                t = ref.get("t") or ""
                nm = ref.get("n") or ""
                if SKIP_TYPE_RE.search(t) or re.match(r"\s*const\b", t) or nm in self.prog.thread_locals(self.fn["tu"]) \
                        or nm in ("cout", "cerr", "cin", "clog", "npos", "nullopt", "ignore"):
                    return set()
                return {(F, f"{Path(self.fn['tu']).name}::{nm}")}
            if ref.get("k") in ("VarDecl", "ParmVarDecl", "BindingDecl", "DecompositionDecl"):
                return set()
            return None
        if k == "MemberExpr":
            if not n.get("in"):
                return None
            base = n["in"][0]
            info = self.member_info(n)
            if info is None:
                return None   # a method name; handled by the call
            cls, fname, ftype = info
            br = self.roots_of(base, depth + 1)
            if cls in SINGLETONS or cls in MULTI_INSTANCE:
                if SKIP_TYPE_RE.search(ftype or ""):
                    return set()
                res = {self.field_loc(cls, fname)}
                if cls in MULTI_INSTANCE and br:
                    res |= {r for r in br if r[0] == "FRESHVAR"}
                return res
            if br is None:
                return None
            if SKIP_TYPE_RE.search(ftype or ""):
                return set()
            out = set()
            for r in br:
                if r[0] == F and cls in SUBFIELD_TYPES and "." not in r[1] and self._is_subfield_root(r[1]):
                    out.add((F, r[1] + "." + fname))
                elif r[0] == P and len(r) == 3 and cls in SUBFIELD_TYPES:
                    out.add((P, r[1], r[2], fname))
                else:
                    out.add(r)
            return out
        if k == "UnaryOperator" and n.get("op") in ("*", "&", "++", "--") and n.get("in"):
            return self.roots_of(n["in"][0], depth + 1)
        if k == "ArraySubscriptExpr" and n.get("in"):
            return self.roots_of(n["in"][0], depth + 1)
        if k == "ConditionalOperator" and n.get("in") and len(n["in"]) == 3:
            a = self.roots_of(n["in"][1], depth + 1)
            b = self.roots_of(n["in"][2], depth + 1)
            if a is None and b is None:
                return None
            return (a or set()) | (b or set())
        if k == "BinaryOperator" and n.get("op") in ("=", ",") and n.get("in"):
            return self.roots_of(n["in"][0 if n["op"] == "=" else 1], depth + 1)
        if k == "CXXOperatorCallExpr" and n.get("in") and len(n["in"]) >= 2:
            callee = self.unwrap(n["in"][0])
            name = (callee.get("ref") or {}).get("n") or ""
            if name in ("operator[]", "operator->", "operator*", "operator++", "operator--", "operator=",
                        "operator+", "operator-", "operator+=", "operator-="):
                return self.roots_of(n["in"][1], depth + 1)
            return None
        if k == "CXXMemberCallExpr" and n.get("in"):
            m = n["in"][0]
            if m.get("k") == "MemberExpr" and m.get("in"):
                key = self.fn_ids.get(m.get("mref")) or self._method_key_by_type(m)
                if key and key in self.prog.functions and self._descend(key):
                    return set(self.prog.ret_roots.get(key, set())) if self._returns_alias(key) else None
                if not self.is_alias_type(self.ty(n)) and n.get("vc") == "prvalue":
                    return None
                return self.roots_of(m["in"][0], depth + 1)
            return None
        if k == "CallExpr" and n.get("in"):
            callee = self.unwrap(n["in"][0])
            rid = (callee.get("ref") or {}).get("id")
            key = self.fn_ids.get(rid)
            if key and key in self.prog.functions:
                return set(self.prog.ret_roots.get(key, set())) if self._returns_alias(key) else None
            if not self.is_alias_type(self.ty(n)) and n.get("vc") == "prvalue":
                return None
            out = None
            for a in n["in"][1:]:
                r = self.roots_of(a, depth + 1)
                if r is not None:
                    out = (out or set()) | r
            return out
        if k in ("CXXConstructExpr", "CXXTemporaryObjectExpr", "InitListExpr", "CXXStdInitializerListExpr"):
            # an object built from pointer-ish arguments carries them (ReadyFetch{key, &state, ttl})
            if not (self.is_alias_type(self.ty(n)) or self._record_has_pointer(self.ty(n))):
                return None
            out = None
            for a in n.get("in", []):
                r = self.ptr_roots(a, depth + 1)
                if r:
                    out = (out or set()) | r
            return out
        if k == "LambdaExpr":
            return None
        return None

    def _local_value_base(self, base) -> bool:
        b = self.unwrap(base)
        return b.get("k") == "DeclRefExpr" and not b.get("arrow") and not self.is_alias_type(self.ty(b))

    def _is_subfield_root(self, loc: str) -> bool:
        return is_subfield_root(self.prog, loc)

    def _record_has_pointer(self, t: str) -> bool:
        rec = self.prog.record_of_type(t)
        if not rec:
            return False
        return any(self.is_alias_type(f["dt"] or f["t"]) for f in self.prog.records[rec]["fields"])

    def _returns_alias(self, key: str) -> bool:
        return self.is_alias_type(self.prog.functions[key].get("rt", "").split("(")[0].strip())

    def _method_key_by_type(self, m) -> Optional[str]:
        base = m["in"][0]
        rec = self.prog.record_of_type(self.ty(base))
        if rec and m.get("n"):
            key = f"{rec}::{m['n']}"
            if key in self.prog.functions:
                return key
        return None

    def ptr_roots(self, n, depth=0) -> set:
        """roots carried by the pointer-ish parts of a *value* expression: address-of, alias-typed
        sub-values (iterators, pointers, smart pointers, views, structs holding them) that flow into
        the value as a whole (constructor / initializer-list / forwarding-call arguments)."""
        out: set = set()
        k = n.get("k")
        if k is None or k == "LambdaExpr" or depth > 60:
            return out
        if k in ("ImplicitCastExpr", "ParenExpr", "ExprWithCleanups", "MaterializeTemporaryExpr", "CXXBindTemporaryExpr",
                 "ConstantExpr", "CXXFunctionalCastExpr", "CXXStaticCastExpr", "CStyleCastExpr", "CXXConstCastExpr",
                 "CXXReinterpretCastExpr"):
            if k == "ImplicitCastExpr" and n.get("ck") == "LValueToRValue" and not \
                    (self.is_alias_type(self.ty(n)) or self._record_has_pointer(self.ty(n))):
                return out
            for c in n.get("in", []) or []:
                out |= self.ptr_roots(c, depth + 1)
            return out
        if k == "UnaryOperator" and n.get("op") == "&":
            r = self.roots_of(n["in"][0], depth + 1)
            if r:
                out |= r
            return out
        t = self.ty(n)
        if self.is_alias_type(t) or self._record_has_pointer(t):
            r = self.roots_of(n, depth + 1)
            if r:
                out |= r
                return out
        if k in ("CXXConstructExpr", "CXXTemporaryObjectExpr", "InitListExpr", "CXXStdInitializerListExpr",
                 "ConditionalOperator"):
            for c in n.get("in", []) or []:
                out |= self.ptr_roots(c, depth + 1)
            return out
        if k == "CallExpr" and n.get("in"):
            callee = self.unwrap(n["in"][0])
            if (callee.get("ref") or {}).get("n") in ("move", "forward", "make_pair", "make_tuple", "make_optional", "ref",
                                                       "cref", "addressof", "tie"):
                for c in n["in"][1:]:
                    out |= self.ptr_roots(c, depth + 1)
        return out

    # ---- pass 1: local alias map (fixpoint) -----------------------------------------
    def collect_aliases(self):
        fns = [self.fn] + self._nested_lambdas(self.fn)
        for fn in fns:
            for i, p in enumerate(fn["params"]):
                self.var_type[p["id"]] = p["dt"] or p["t"]
                if self.is_func_type(p["dt"] or p["t"]) or self.is_func_type(p["t"]):
                    self.froots.setdefault(p["id"], set()).add((P, fn["key"], i))
                elif self.is_alias_type(p["dt"] or p["t"]) or self._record_has_pointer(p["dt"] or p["t"]):
                    self.roots.setdefault(p["id"], set()).add((P, fn["key"], i))
        changed = True
        rounds = 0
        while changed and rounds < 8:
            changed = False
            rounds += 1
            for fn in fns:
                if self._alias_walk(fn["body"]):
                    changed = True

    def _nested_lambdas(self, fn) -> list:
        pref = fn["key"] + "::lambda#"
        return [f for k, f in self.prog.functions.items() if k.startswith(pref)]

    def _add_froots(self, vid, src) -> bool:
        """where may the value of a std::function variable come from: a lambda, another function
        variable/parameter, or a function-typed location"""
        u = src
        for _ in range(8):
            if u.get("k") == "LambdaExpr":
                break
            if u.get("k") == "CallExpr" and u.get("in") and \
                    (self.unwrap(u["in"][0]).get("ref") or {}).get("n") in ("move", "forward") and len(u["in"]) == 2:
                u = u["in"][1]
                continue
            ins = u.get("in") or []
            if u.get("k") in ("ImplicitCastExpr", "ExprWithCleanups", "MaterializeTemporaryExpr", "CXXBindTemporaryExpr",
                              "ParenExpr", "CXXConstructExpr", "CXXFunctionalCastExpr") and len(ins) == 1:
                u = ins[0]
                continue
            break
        cur = self.froots.setdefault(vid, set())
        n0 = len(cur)
        if u.get("k") == "LambdaExpr":
            cur.add(("L", u["lam"]))
        elif u.get("k") == "DeclRefExpr":
            rid = (u.get("ref") or {}).get("id")
            if rid in self.froots:
                cur |= self.froots[rid]
            elif rid in self.lambda_vars:
                cur.add(("L", self.lambda_vars[rid]))
        else:
            r = self.roots_of(u)
            if r:
                cur |= {x for x in r if x[0] in (F, P)}
        return len(cur) != n0

    def _add_roots(self, vid, rs) -> bool:
        if not rs:
            return False
        rs = {r for r in rs if r[0] != "THIS"}
        cur = self.roots.setdefault(vid, set())
        n0 = len(cur)
        cur |= rs
        return len(cur) != n0

    def _alias_walk(self, n) -> bool:
        ch = False
        k = n.get("k")
        if k in ("VarDecl", "DecompositionDecl", "BindingDecl"):
            vid = n.get("id")
            t = self.ty(n)
            self.var_type[vid] = t
            init = (n.get("in") or [None])[-1] if n.get("in") else None
            if k == "DecompositionDecl":
                # bindings alias the decomposed object
                inits = [c for c in n.get("in", []) if c.get("k") != "BindingDecl"]
                init = inits[0] if inits else None
                rs = set()
                if init is not None:
                    r = self.roots_of(init)
                    if r and (self.is_alias_type(t) or True):
                        rs |= r
                    rs |= self.ptr_roots(init)
                for c in n.get("in", []):
                    if c.get("k") == "BindingDecl":
                        ch |= self._add_roots(c.get("id"), rs)
                        self.roots.setdefault(c.get("id"), set())
                ch |= self._add_roots(vid, rs)
            elif init is not None and init.get("k") not in ("BindingDecl",):
                u = self.unwrap(init)
                if u.get("k") == "LambdaExpr":
                    self.lambda_vars[vid] = u["lam"]
                if self.is_func_type(t) or self.is_func_type(n.get("t")):
                    ch |= self._add_froots(vid, init)
                elif self._is_fresh_init(init):
                    if vid not in self.fresh:
                        self.fresh[vid] = -1
                elif self.is_alias_type(t):
                    r = self.roots_of(init)
                    if r:
                        ch |= self._add_roots(vid, r)
                    ch |= self._add_roots(vid, self.ptr_roots(init))
                else:
                    pr = self.ptr_roots(init)
                    if pr and (self._record_has_pointer(t) or "vector<" in t or "deque<" in t or "map<" in t or "set<" in t
                               or "pair<" in t or "tuple<" in t or "optional<" in t):
                        ch |= self._add_roots(vid, pr)
        elif k == "BinaryOperator" and n.get("op") == "=" and n.get("in"):
            lhs = self.unwrap(n["in"][0])
            if lhs.get("k") == "DeclRefExpr":
                vid = (lhs.get("ref") or {}).get("id")
                if vid is not None and vid not in self.globals:
                    t = self.var_type.get(vid, self.ty(lhs))
                    if self.is_alias_type(t):
                        r = self.roots_of(n["in"][1])
                        if r:
                            ch |= self._add_roots(vid, r)
                    ch |= self._add_roots(vid, self.ptr_roots(n["in"][1]))
        elif k == "CXXOperatorCallExpr" and n.get("in") and len(n["in"]) >= 3:
            callee = self.unwrap(n["in"][0])
            if (callee.get("ref") or {}).get("n") == "operator=":
                lhs = self.unwrap(n["in"][1])
                if lhs.get("k") == "DeclRefExpr":
                    vid = (lhs.get("ref") or {}).get("id")
                    if vid is not None and vid not in self.globals:
                        t = self.var_type.get(vid, self.ty(lhs))
                        if self.is_func_type(t) or self.is_func_type(lhs.get("t")):
                            ch |= self._add_froots(vid, n["in"][2])
                        else:
                            if self.is_alias_type(t):
                                r = self.roots_of(n["in"][2])
                                if r:
                                    ch |= self._add_roots(vid, r)
                            ch |= self._add_roots(vid, self.ptr_roots(n["in"][2]))
        elif k == "CXXMemberCallExpr" and n.get("in"):
            m = n["in"][0]
            if m.get("k") == "MemberExpr" and m.get("in"):
                obj = self.unwrap(m["in"][0])
                if obj.get("k") == "DeclRefExpr" and m.get("n") in ("push_back", "emplace_back", "insert", "emplace",
                                                                     "push_front", "emplace_front", "assign", "reset",
                                                                     "try_emplace", "insert_or_assign", "swap"):
                    vid = (obj.get("ref") or {}).get("id")
                    if vid is not None and vid not in self.globals:
                        pr = set()
                        for a in n["in"][1:]:
                            pr |= self.ptr_roots(a)
                        ch |= self._add_roots(vid, pr)
        for c in n.get("in", []) or []:
            if c.get("k") == "LambdaExpr":
                for cc in c.get("in", []) or []:
                    ch |= self._alias_walk(cc)
                continue
            ch |= self._alias_walk(c)
        return ch

    def _is_fresh_init(self, init) -> bool:
        def has_make(n):
            if n.get("k") == "CallExpr" and n.get("in"):
                c = self.unwrap(n["in"][0])
                if (c.get("ref") or {}).get("n") in ("make_shared", "make_unique"):
                    rec = self.prog.record_of_type(self.ty(n))
                    return rec in MULTI_INSTANCE
            if n.get("k") == "CXXNewExpr":
                return self.prog.record_of_type(self.ty(n)) in MULTI_INSTANCE
            return any(has_make(c) for c in n.get("in", []) or [] if c.get("k") != "LambdaExpr")
        return has_make(init)

    def compute_fresh(self):
        """escape line of every fresh (just allocated, unpublished) object variable"""
        if not self.fresh:
            return
        esc: dict[str, int] = {v: 10 ** 9 for v in self.fresh}

        def walk(n, parent, gparent):
            if n.get("k") == "DeclRefExpr":
                vid = (n.get("ref") or {}).get("id")
                if vid in esc:
                    p = parent
                    # climb through casts
                    ok = False
                    chain = [parent, gparent]
                    for q in chain:
                        if q is None:
                            break
                        if q.get("k") in ("ImplicitCastExpr", "ParenExpr"):
                            continue
                        if q.get("k") == "CXXOperatorCallExpr":
                            c = self.unwrap(q["in"][0])
                            if (c.get("ref") or {}).get("n") in ("operator->", "operator*", "operator bool"):
                                ok = True
                        if q.get("k") == "MemberExpr":
                            ok = True
                        break
                    if not ok and n.get("l") is not None:
                        esc[vid] = min(esc[vid], n["l"])
            for c in n.get("in", []) or []:
                walk(c, n, parent)

        for fn in [self.fn] + self._nested_lambdas(self.fn):
            walk(fn["body"], None, None)
        for v in self.fresh:
            self.fresh[v] = esc[v]
            self.roots.setdefault(v, set()).add(("FRESHVAR", v))

    # ---- pass 2: events --------------------------------------------------------------
    def summarize(self):
        self.collect_aliases()
        self.compute_fresh()
        out = {}
        for fn in [self.fn] + self._nested_lambdas(self.fn):
            self.cur = fn
            self.ov_unlocked, self.ov_locked, self.scope_stack = {}, {}, [[]]
            self.events = []
            self.ret: set = set()
            self.cls = fn["cls"] or self._lambda_cls(fn)
            self.visit_stmt(fn["body"], frozenset())
            out[fn["key"]] = {"events": self.events, "ret": self.ret, "file": fn["file"], "line": fn["line"]}
        return out

    def _lambda_cls(self, fn):
        k = fn["key"]
        while "::lambda#" in k:
            k = k.rsplit("::lambda#", 1)[0]
        parent = self.prog.functions.get(k)
        return parent["cls"] if parent else None

    def lock_id_of(self, n) -> Optional[str]:
        """identity of the mutex expression passed to a lock object's constructor"""
        u = self.unwrap(n)
        if u.get("k") == "MemberExpr":
            info = self.member_info(u)
            if info:
                q = f"{info[0]}::{info[1]}"
                return LOCK_ALIASES.get(q, q)
        if u.get("k") == "DeclRefExpr":
            ref = u.get("ref") or {}
            if ref.get("id") in self.globals:
                return self.globals[ref["id"]][0]
            if ref.get("k") == "VarDecl" and ref.get("id") not in self.var_type:
                return f"{Path(self.fn['tu']).name}::{ref.get('n')}"
            base = self.fn["key"].split("::lambda#")[0]
            q = f"{base.split('::')[-1]}::{ref.get('n')}" if not self.fn.get("cls") else f"{base}::{ref.get('n')}"
            return LOCK_ALIASES.get(q, q)
        return None

    # ---- flow-sensitive part of the lock set -----------------------------------------------
    def eff(self, held):
        """locks held at this point: the lexically enclosing lock objects, minus those explicitly
        unlocked / released so far, plus deferred ones explicitly locked so far"""
        out = set()
        for h in held:
            if h.startswith("@"):                     # a lock object in whose lexical scope we are
                if h[1:] not in self.ov_unlocked:
                    out |= set(self.lockvars[h[1:]][0])
            else:
                out.add(h)
        for ls in self.ov_locked.values():
            out |= set(ls)
        return frozenset(out)

    def ov_get(self):
        return (dict(self.ov_unlocked), dict(self.ov_locked))

    def ov_set(self, st):
        self.ov_unlocked, self.ov_locked = dict(st[0]), dict(st[1])

    @staticmethod
    def ov_merge(a, b):
        """join of two paths: unlocked on either path -> unlocked; locked only if locked on both"""
        un = dict(a[0]); un.update(b[0])
        lk = {k: v for k, v in a[1].items() if k in b[1]}
        return (un, lk)

    def scoped(self, body):
        """run body() in a new lexical scope; lock objects declared inside stop existing afterwards"""
        self.scope_stack.append([])
        try:
            body()
        finally:
            for vid in self.scope_stack.pop():
                self.ov_unlocked.pop(vid, None)
                self.ov_locked.pop(vid, None)

    def lock_object_call(self, n, held) -> bool:
        """lk.unlock() / lk.release() / lk.lock() / lk.try_lock() on a lock object, condition-variable waits,
        std::lock(lk1, lk2): update the overlay; True if the call was one of these"""
        ins = n.get("in") or []
        k = n.get("k")
        if k == "CXXMemberCallExpr" and ins and ins[0].get("k") == "MemberExpr" and ins[0].get("in"):
            name = ins[0].get("n")
            obj = self.unwrap(ins[0]["in"][0])
            vid = (obj.get("ref") or {}).get("id") if obj.get("k") == "DeclRefExpr" else None
            if vid in self.lockvars and name in ("unlock", "release", "lock", "try_lock", "try_lock_for", "try_lock_until",
                                                 "owns_lock", "mutex", "operator bool"):
                locks, rec = self.lockvars[vid]
                if name in ("unlock", "release"):
                    self.ov_locked.pop(vid, None)
                    self.ov_unlocked[vid] = locks
                elif name == "lock":
                    before = self.eff(held)
                    self.events.append(("lock", tuple(locks), rec, n.get("f") or self.cur["file"], n.get("l"),
                                        frozenset(set(before) - set(locks)) if rec else before))
                    if vid in self.ov_unlocked:
                        del self.ov_unlocked[vid]
                    if "@" + vid not in held:          # a deferred / try lock object: held from here on
                        self.ov_locked[vid] = locks
                # try_lock*: may fail -> conservatively not held (no change)
                return True
            if name in ("wait", "wait_for", "wait_until") and "condition_variable" in (self.ty(obj) or ""):
                # the wait releases the lock object and re-acquires it before returning: the lock set of the
                # accesses around it is unchanged, but the re-acquisition happens under the other held locks
                args = ins[1:]
                if args:
                    a0 = self.unwrap(args[0])
                    avid = (a0.get("ref") or {}).get("id") if a0.get("k") == "DeclRefExpr" else None
                    if avid in self.lockvars:
                        locks, rec = self.lockvars[avid]
                        self.events.append(("lock", tuple(locks), rec, n.get("f") or self.cur["file"], n.get("l"),
                                            frozenset(set(self.eff(held)) - set(locks))))
                    for a in args[1:]:
                        self.visit_arg(a, held, external=True)   # the predicate runs with the lock held
                return True
            if name in ("lock", "unlock", "try_lock", "lock_shared", "unlock_shared") and "mutex" in (self.ty(obj) or ""):
                self.prog.gaps.append(f"manual {name}() on a mutex at {Path(n.get('f') or self.cur['file']).name}:{n.get('l')} "
                                      f"(not tracked: the region is treated as unlocked)")
                return True
        if k == "CallExpr" and ins:
            callee = self.unwrap(ins[0])
            if (callee.get("ref") or {}).get("n") == "lock" and len(ins) >= 3:
                vids = []
                for a in ins[1:]:
                    u = self.unwrap(a)
                    vid = (u.get("ref") or {}).get("id") if u.get("k") == "DeclRefExpr" else None
                    if vid in self.lockvars:
                        vids.append(vid)
                if vids:   # std::lock(lk1, lk2, ...): deadlock-avoiding acquisition of deferred lock objects
                    for vid in vids:
                        self.ov_unlocked.pop(vid, None)
                        self.ov_locked[vid] = self.lockvars[vid][0]
                    return True
        return False

    def emit_acc(self, roots, kind, n, held, force_w=False, confined=False):
        held = self.eff(held)
        if not roots:
            return
        line = n.get("l")
        f = n.get("f") or self.cur["file"]
        for r in roots:
            if r[0] == F:
                self.events.append(("acc", r[1], "W" if force_w else kind, f, line, held, confined))
            elif r[0] == P:
                self.events.append(("pacc", (r[1], r[2], r[3] if len(r) > 3 else ""), "W" if force_w else kind, f, line, held))
            elif r[0] == "FRESHVAR":
                pass

    def _filter_fresh(self, roots, n):
        """drop accesses through a fresh object before it escapes"""
        if not roots:
            return roots
        out = set()
        for r in roots:
            if r[0] == "FRESHVAR":
                continue
            out.add(r)
        return out

    def path_access(self, n, kind, held):
        """n is an lvalue/pointer path: record the access and visit the side expressions"""
        if n.get("k") == "DeclRefExpr":
            vid = (n.get("ref") or {}).get("id")
            vt = (self.var_type.get(vid) or "").rstrip()
            if vid in self.var_type and not vt.endswith("&"):
                return True     # the local pointer / iterator / container object itself, not what it points to
        roots = self.roots_of(n)
        self.visit_side(n, held)
        if roots is None:
            return False
        # fresh-object suppression: fields of a just-allocated multi-instance object are private
        # until the variable holding it is used for anything but member access (escape line)
        private = False
        via_creator = any(r[0] == "FRESHVAR" for r in roots)
        for r in roots:
            if r[0] == "FRESHVAR" and n.get("l") is not None and n["l"] < self.fresh.get(r[1], 0):
                private = True
        roots = {r for r in roots if r[0] in (F, P)}
        if private:
            roots = {r for r in roots if not (r[0] == F and any(r[1].startswith(m + "::") for m in MULTI_INSTANCE))}
        force = self.path_forces_write(n)
        self.emit_acc(roots, kind, n, held, force_w=force, confined=via_creator)
        return True

    def path_forces_write(self, n, depth=0) -> bool:
        """does evaluating the path itself modify its root (map operator[], try_emplace ...)?"""
        k = n.get("k")
        if depth > 60:
            return False
        if k in ("ImplicitCastExpr", "ParenExpr", "ExprWithCleanups", "MaterializeTemporaryExpr", "CXXBindTemporaryExpr",
                 "MemberExpr", "ArraySubscriptExpr") and n.get("in"):
            return self.path_forces_write(n["in"][0], depth + 1)
        if k == "UnaryOperator" and n.get("in"):
            return self.path_forces_write(n["in"][0], depth + 1)
        if k == "CXXOperatorCallExpr" and n.get("in") and len(n["in"]) >= 2:
            callee = self.unwrap(n["in"][0])
            name = (callee.get("ref") or {}).get("n") or ""
            obj = n["in"][1]
            if name == "operator[]" and re.search(r"map<", self.ty(self.unwrap(obj)) or self.ty(obj)):
                ot = self.ty(self.unwrap(obj))
                if not re.match(r"\s*const\b", ot):
                    return True
            return self.path_forces_write(obj, depth + 1)
        return False

    def visit_side(self, n, held, depth=0):
        """visit the non-path sub-expressions of a path (indices, call arguments)"""
        k = n.get("k")
        if depth > 80:
            return
        if k in ("ImplicitCastExpr", "ParenExpr", "ExprWithCleanups", "MaterializeTemporaryExpr", "CXXBindTemporaryExpr",
                 "MemberExpr", "UnaryOperator", "ConstantExpr", "CXXStaticCastExpr", "CXXFunctionalCastExpr",
                 "CStyleCastExpr", "CXXConstCastExpr", "CXXReinterpretCastExpr") and n.get("in"):
            self.visit_side(n["in"][0], held, depth + 1)
        elif k == "ArraySubscriptExpr" and n.get("in"):
            self.visit_side(n["in"][0], held, depth + 1)
            for c in n["in"][1:]:
                self.visit(c, held)
        elif k == "CXXOperatorCallExpr" and n.get("in") and len(n["in"]) >= 2:
            self.visit_side(n["in"][1], held, depth + 1)
            for c in n["in"][2:]:
                self.visit(c, held)
        elif k in ("CXXMemberCallExpr", "CallExpr"):
            self.visit_call(n, held)
        elif k == "ConditionalOperator" and n.get("in"):
            self.visit(n["in"][0], held)
            self.visit_side(n["in"][1], held, depth + 1)
            self.visit_side(n["in"][2], held, depth + 1)
        elif k in ("DeclRefExpr", "CXXThisExpr"):
            return
        else:
            for c in n.get("in", []) or []:
                self.visit(c, held)

    def is_path(self, n) -> bool:
        u = n
        k = u.get("k")
        if k in ("DeclRefExpr", "MemberExpr", "ArraySubscriptExpr", "CXXThisExpr"):
            if k == "MemberExpr" and self.member_info(u) is None:
                return False
            return True
        if k == "UnaryOperator" and u.get("op") in ("*",):
            return True
        if k == "CXXOperatorCallExpr" and u.get("in"):
            callee = self.unwrap(u["in"][0])
            return ((callee.get("ref") or {}).get("n") or "") in ("operator[]", "operator->", "operator*")
        return False

    # expressions ----------------------------------------------------------------------
    def visit(self, n, held, kind="R"):
        k = n.get("k")
        if k is None:
            return
        if k in ("ParenExpr", "ExprWithCleanups", "MaterializeTemporaryExpr", "CXXBindTemporaryExpr", "ConstantExpr"):
            for c in n.get("in", []) or []:
                self.visit(c, held, kind)
            return
        if k == "ImplicitCastExpr" or k in ("CXXStaticCastExpr", "CXXFunctionalCastExpr", "CStyleCastExpr",
                                            "CXXConstCastExpr", "CXXReinterpretCastExpr", "CXXDynamicCastExpr"):
            for c in n.get("in", []) or []:
                self.visit(c, held, "R" if n.get("ck") == "LValueToRValue" else kind)
            return
        if self.is_path(n):
            if self.path_access(n, kind, held):
                return
            for c in n.get("in", []) or []:
                self.visit(c, held)
            return
        if k == "BinaryOperator":
            op = n.get("op")
            if op == "=":
                self.visit(n["in"][0], held, "W")
                self.visit(n["in"][1], held)
            else:
                for c in n["in"]:
                    self.visit(c, held)
            return
        if k == "CompoundAssignOperator":
            self.visit(n["in"][0], held, "W")
            self.visit(n["in"][1], held)
            return
        if k == "UnaryOperator":
            op = n.get("op")
            if op in ("++", "--"):
                self.visit(n["in"][0], held, "W")
            elif op == "&":
                # address taken: the pointee may be written through the pointer unless it points to const
                t = self.ty(n)
                self.visit(n["in"][0], held, "R")
            else:
                for c in n["in"]:
                    self.visit(c, held)
            return
        if k in ("CXXMemberCallExpr", "CallExpr", "CXXOperatorCallExpr"):
            self.visit_call(n, held)
            return
        if k in ("CXXConstructExpr", "CXXTemporaryObjectExpr"):
            for a in n.get("in", []) or []:
                self.visit_arg(a, held, external=True)
            return
        if k == "LambdaExpr":
            # a lambda that is neither called nor passed anywhere we understand: its captures only
            for c in n.get("in", []) or []:
                self.visit(c, held)
            return
        if k in ("DeclStmt", "CompoundStmt", "IfStmt", "ForStmt", "WhileStmt", "DoStmt", "CXXForRangeStmt", "ReturnStmt",
                 "SwitchStmt", "CaseStmt", "DefaultStmt", "CXXTryStmt", "CXXCatchStmt", "VarDecl", "DecompositionDecl",
                 "BindingDecl", "LabelStmt", "AttributedStmt"):
            self.visit_stmt(n, held)
            return
        for c in n.get("in", []) or []:
            self.visit(c, held)

    def visit_arg(self, a, held, external: bool, callee_key=None, index=None):
        """an argument of a call.  external callee: an lvalue passed without lvalue-to-rvalue
        conversion and without a cast to const is bound to a mutable reference -> write."""
        u = a
        # strip wrappers, remembering whether constness was added
        constified = False
        while u.get("k") in ("ImplicitCastExpr", "ExprWithCleanups", "MaterializeTemporaryExpr", "CXXBindTemporaryExpr",
                             "ParenExpr") and u.get("in"):
            if u.get("k") == "ImplicitCastExpr":
                if u.get("ck") == "LValueToRValue":
                    self.visit(a, held)
                    return
                if re.match(r"\s*const\b", u.get("t") or ""):
                    constified = True
            u = u["in"][0]
        if u.get("k") == "LambdaExpr":
            if external:
                self.events.append(("call", u["lam"], {}, u.get("f") or self.cur["file"], u.get("l"), self.eff(held)))
            else:
                self.events.append(("fstore", ("P", callee_key, index), ("L", u["lam"]), None, u.get("l"), self.eff(held)))
            for c in u.get("in", []) or []:
                self.visit(c, held)
            return
        if u.get("k") == "DeclRefExpr" and (u.get("ref") or {}).get("id") in self.lambda_vars:
            lk = self.lambda_vars[u["ref"]["id"]]
            if external:
                self.events.append(("call", lk, {}, u.get("f") or self.cur["file"], u.get("l"), self.eff(held)))
            else:
                self.events.append(("fstore", ("P", callee_key, index), ("L", lk), None, u.get("l"), self.eff(held)))
            return
        if u.get("k") in ("CXXConstructExpr", "CXXTemporaryObjectExpr") and len(u.get("in", []) or []) == 1 and \
                "std::function" in (self.ty(u) or "") or (u.get("k") in ("CXXConstructExpr",) and self._wraps_lambda(u)):
            # std::function constructed from a lambda
            inner = self._wraps_lambda(u)
            if inner is not None:
                if external:
                    self.events.append(("call", inner["lam"], {}, inner.get("f") or self.cur["file"], inner.get("l"), self.eff(held)))
                else:
                    self.events.append(("fstore", ("P", callee_key, index), ("L", inner["lam"]), None, inner.get("l"), self.eff(held)))
                for c in inner.get("in", []) or []:
                    self.visit(c, held)
                return
        if external and u.get("vc") == "prvalue" and u.get("k") in ("CXXMemberCallExpr", "CXXOperatorCallExpr", "UnaryOperator") \
                and self.is_alias_type(self.ty(u)) and "const" not in (self.ty(u) or ""):
            r = self.roots_of(u)
            if r:
                self.emit_acc({x for x in r if x[0] in (F, P)}, "W", u, held)
        if self.is_path(u) and u.get("vc") == "lvalue":
            t = self.ty(u)
            is_const = constified or bool(re.match(r"\s*const\b", t))
            if external:
                self.path_access(u, "R" if is_const else "W", held)
            else:
                self.path_access(u, "R", held)
            return
        self.visit(a, held)

    def _wraps_lambda(self, u):
        n = u
        for _ in range(6):
            if n.get("k") == "LambdaExpr":
                return n
            ins = n.get("in") or []
            if len(ins) != 1:
                return None
            n = ins[0]
        return None

    def visit_call(self, n, held):
        k = n.get("k")
        ins = n.get("in") or []
        if not ins:
            return
        if self.lock_object_call(n, held):
            return
        line, f = n.get("l"), n.get("f") or self.cur["file"]
        if k == "CXXMemberCallExpr":
            m = ins[0]
            args = ins[1:]
            if m.get("k") != "MemberExpr" or not m.get("in"):
                for c in ins:
                    self.visit(c, held)
                return
            obj = m["in"][0]
            key = self.fn_ids.get(m.get("mref")) or self._method_key_by_type(m)
            if key and key in self.prog.functions and self._descend(key):
                self._analysed_call(key, args, n, held, obj=obj)
                return
            rec = self.prog.record_of_type(self.ty(obj))
            if rec and (rec in SINGLETONS or rec in MULTI_INSTANCE or key):
                # a method of an analysed class whose body we do not have (defaulted / external)
                self.prog.unanalysed_calls.add(f"{rec}::{m.get('n')}")
            name = m.get("n") or ""
            ot = self.ty(obj)
            is_const = bool(re.match(r"\s*const\b", ot))
            if "std::function" in ot and name in ("operator()",):
                self._cbcall(obj, n, held)
            kind = "R" if (is_const or name in READONLY_NONCONST) else "W"
            self.visit(obj, held, kind)
            for a in args:
                self.visit_arg(a, held, external=True)
            return
        if k == "CXXOperatorCallExpr":
            callee = self.unwrap(ins[0])
            ref = callee.get("ref") or {}
            name = ref.get("n") or ""
            key = self.fn_ids.get(ref.get("id"))
            args = ins[1:]
            if key and key in self.prog.functions and self._descend(key):
                # operator() of a local lambda (the closure object is args[0]) or an operator of an
                # analysed class (implicit object first when it is a member operator)
                callee_fn = self.prog.functions[key]
                if name == "operator()" or callee_fn.get("cls"):
                    self._analysed_call(key, args[1:], n, held, obj=None if callee_fn.get("lam") else args[0])
                else:
                    self._analysed_call(key, args, n, held)
                return
            if name == "operator()" and args:
                ot = self.ty(self.unwrap(args[0])) or self.ty(args[0])
                if "std::function" in ot or ALIAS_TYPE_RE.search(ot or "") and "function" in (ot or "").lower() or \
                        re.search(r"(Handler|Callback|Builder)\b", ot or ""):
                    self._cbcall(args[0], n, held)
                    self.visit(args[0], held, "R")
                    for a in args[1:]:
                        self.visit_arg(a, held, external=True)
                    return
            if name in WRITE_OPERATORS and args:
                self.visit(args[0], held, "W")
                for a in args[1:]:
                    self.visit_arg(a, held, external=True)
                return
            if name in ("operator<<", "operator>>") and args:
                # stream insertion/extraction: the stream is not shared state; >> writes its right operand
                self.visit(args[0], held, "R")
                for a in args[1:]:
                    self.visit(a, held, "W" if name == "operator>>" else "R")
                return
            for a in args:
                self.visit(a, held)
            return
        # CallExpr
        callee = self.unwrap(ins[0])
        ref = callee.get("ref") or {}
        key = self.fn_ids.get(ref.get("id"))
        args = ins[1:]
        if key and key in self.prog.functions and self._descend(key):
            self._analysed_call(key, args, n, held)
            return
        if callee.get("k") not in ("DeclRefExpr",):
            # call through a function pointer / member pointer expression
            self.visit(ins[0], held)
        elif ref.get("k") in ("FunctionDecl", "CXXMethodDecl") and key:
            self.prog.unanalysed_calls.add(key)
        for a in args:
            self.visit_arg(a, held, external=True)

    def _descend(self, key: str) -> bool:
        """follow the call into the callee's body?  Free functions, lambdas and methods of the
        singleton / multi-instance classes: yes.  Methods of plain data records (Manifest, Config,
        PendingFetchState, ...: getters, implicit copy operators) are treated like library methods
        acting on their object."""
        fn = self.prog.functions[key]
        cls = fn.get("cls")
        if fn.get("lam") or cls is None:
            return True
        return cls in SINGLETONS or cls in MULTI_INSTANCE or cls in FOLLOW_ONLY

    def _cbcall(self, obj, n, held):
        u = self.unwrap(obj)
        rid = (u.get("ref") or {}).get("id") if u.get("k") == "DeclRefExpr" else None
        if rid in self.froots:
            roots = self.froots[rid]
        else:
            roots = self.roots_of(obj) or set()
        locs = sorted(r[1] for r in roots if r[0] == F)
        plocs = sorted((r[1], r[2]) for r in roots if r[0] == P)
        lams = sorted(r[1] for r in roots if r[0] == "L")
        self.events.append(("cbcall", (tuple(locs), tuple(plocs), tuple(lams)), None, n.get("f") or self.cur["file"],
                            n.get("l"), self.eff(held)))

    def _analysed_call(self, key, args, n, held, obj=None):
        callee = self.prog.functions[key]
        bind = {}
        if obj is not None:
            # the object expression: reading a pointer/smart-pointer member to reach the object
            u = self.unwrap(obj)
            if u.get("k") != "CXXThisExpr":
                rec = self.prog.record_of_type(self.ty(obj))
                ot = self.ty(u)
                if re.search(r"(shared_ptr|unique_ptr|\*)", ot or "") or u.get("k") == "CXXOperatorCallExpr":
                    self.visit(obj, held, "R")
                elif rec not in SINGLETONS and rec not in MULTI_INSTANCE:
                    self.visit(obj, held, "R")
                else:
                    self.visit_side(obj, held)
        for i, a in enumerate(args):
            if i < len(callee["params"]):
                p = callee["params"][i]
                pt = p["dt"] or p["t"]
                if self.is_alias_type(pt) or self._record_has_pointer(pt):
                    r = self.roots_of(a)
                    rs = set(r or set()) | self.ptr_roots(a)
                    rs = {x for x in rs if x[0] in (F, P)}
                    if rs:
                        bind[i] = frozenset(rs)
                if re.search(r"(&&?|\*)\s*(const)?\s*$", pt.rstrip()) and not self.is_func_type(pt):
                    ua = self.unwrap(a)
                    if self.is_path(ua) and ua.get("vc") == "lvalue":
                        self.visit_side(ua, held)   # the callee accesses the object, not the call site
                        continue
            self.visit_arg(a, held, external=False, callee_key=key, index=i)
        self.events.append(("call", key, bind, n.get("f") or self.cur["file"], n.get("l"), self.eff(held)))

    # statements -----------------------------------------------------------------------
    def visit_stmt(self, n, held):
        k = n.get("k")
        if k == "CompoundStmt" or k == "SwitchStmt":
            def body():
                cur = held
                for c in n.get("in", []) or []:
                    cur = self.visit_in_scope(c, cur)
            self.scoped(body)
            return
        if k == "IfStmt":
            def body():
                ins = list(n.get("in", []) or [])
                nbranch = 2 if n.get("helse") else 1
                head, branches = ins[:-nbranch], ins[-nbranch:]
                cur = held
                for c in head:                      # init statement, condition variable, condition
                    cur = self.visit_in_scope(c, cur)
                s0 = self.ov_get()
                outs = []
                for b in branches:
                    self.ov_set(s0)
                    self.scoped(lambda b=b: self.visit_in_scope(b, cur))
                    outs.append(self.ov_get())
                if len(outs) == 1:
                    outs.append(s0)
                self.ov_set(self.ov_merge(outs[0], outs[1]))
            self.scoped(body)
            return
        if k in ("ForStmt", "WhileStmt", "CXXForRangeStmt", "DoStmt"):
            def body():
                def once():
                    cur = held
                    for c in n.get("in", []) or []:
                        cur = self.visit_in_scope(c, cur)
                s0 = self.ov_get()
                self.scoped(once)
                m = self.ov_merge(s0, self.ov_get())
                if m != s0:                         # the body changes the lock state: a later iteration starts from the join
                    self.ov_set(m)
                    self.scoped(once)
                    m = self.ov_merge(m, self.ov_get())
                self.ov_set(m)
            self.scoped(body)
            return
        if k == "CXXTryStmt":
            ins = list(n.get("in", []) or [])
            s0 = self.ov_get()
            outs = []
            if ins:
                self.scoped(lambda: self.visit_in_scope(ins[0], held))
                outs.append(self.ov_get())
            entry = self.ov_merge(s0, outs[0]) if outs else s0
            for c in ins[1:]:                       # handlers: entered from anywhere inside the try block
                self.ov_set(entry)
                self.scoped(lambda c=c: self.visit_in_scope(c, held))
                outs.append(self.ov_get())
            res = outs[0] if outs else s0
            for o in outs[1:]:
                res = self.ov_merge(res, o)
            self.ov_set(res)
            return
        if k == "ReturnStmt":
            for c in n.get("in", []) or []:
                r = self.roots_of(c)
                if r:
                    self.ret |= {x for x in r if x[0] in (F, P)}
                pr = self.ptr_roots(c)
                self.ret |= {x for x in pr if x[0] in (F, P)}
                self.visit(c, held)
            return
        if k == "DeclStmt":
            for c in n.get("in", []) or []:
                self.visit_stmt(c, held)
            return
        if k in ("VarDecl", "DecompositionDecl"):
            t = self.ty(n)
            ins = [c for c in (n.get("in") or []) if c.get("k") != "BindingDecl"]
            if ins:
                init = ins[-1]
                if self.is_alias_type(t) and not re.search(r"(shared_ptr|unique_ptr|std::function)", t):
                    # binding a reference/iterator/pointer: evaluate the path (side effects + a read)
                    self.visit(init, held, "R")
                else:
                    self.visit(init, held, "R")
            for c in (n.get("in") or []):
                if c.get("k") == "BindingDecl":
                    for cc in c.get("in", []) or []:
                        pass
            return
        if k == "BindingDecl":
            return
        for c in n.get("in", []) or []:
            self.visit(c, held)

    def visit_in_scope(self, c, held):
        """visit one child of a scope; returns the lock set for the following siblings"""
        if c.get("k") == "DeclStmt":
            new = held
            for v in c.get("in", []) or []:
                if v.get("k") == "VarDecl" and any(lt in (v.get("t") or "") or lt in (v.get("dt") or "") for lt in LOCK_TYPES):
                    ctor = v["in"][-1] if v.get("in") else None
                    locks = []
                    tag = None
                    if ctor is not None:
                        cu = self.unwrap(ctor)
                        for a in cu.get("in", []) or []:
                            ua = self.unwrap(a)
                            at = (self.ty(ua) or "") + " " + (self.ty(a) or "")
                            nm = next((t for t in ("defer_lock", "try_to_lock", "adopt_lock") if t + "_t" in at), None)
                            if nm:
                                tag = nm
                                continue
                            if "duration" in (self.ty(ua) or "") or "time_point" in (self.ty(ua) or ""):
                                tag = "try_to_lock"     # timed constructors may fail like try_to_lock
                                continue
                            lid = self.lock_id_of(a)
                            if lid:
                                locks.append(lid)
                    if not locks:
                        self.prog.gaps.append(f"lock object without recognisable mutex at {self.cur['file']}:{v.get('l')}")
                    recursive = "recursive" in ((v.get("t") or "") + (v.get("dt") or "")) or (
                        ctor is not None and any("recursive" in self.ty(self.unwrap(a))
                                                 for a in (self.unwrap(ctor).get("in", []) or [])))
                    self.lockvars[v.get("id")] = (tuple(locks), recursive)
                    self.scope_stack[-1].append(v.get("id"))
                    if tag in ("defer_lock", "try_to_lock"):
                        # not (known to be) held until an explicit lock(); try-locks may fail: never counted
                        continue
                    # acquisition event (for the lock-order graph): which locks are taken here, lexically under `new`
                    if tag != "adopt_lock":
                        self.events.append(("lock", tuple(locks), recursive, v.get("f") or self.cur["file"], v.get("l"),
                                            self.eff(new)))
                    new = new | frozenset(["@" + v.get("id")])
                else:
                    self.visit_stmt(v, new)
            return new
        self.visit(c, held)
        return held


def build_program(jobs: int = 4) -> Program:
    prog = Program(load_all(jobs))
    # which functions return aliases: iterate return roots to a fixpoint (two rounds are enough here)
    tops = [fn for k, fn in prog.functions.items() if "::lambda#" not in k]
    for rnd in range(3):
        prog.summaries = {}
        prog.gaps = []
        for fn in tops:
            s = FnAnalysis(prog, fn).summarize()
            prog.summaries.update(s)
        new = {k: {x for x in v["ret"] if x[0] == F} for k, v in prog.summaries.items()}
        if new == prog.ret_roots:
            break
        prog.ret_roots = new
    return prog


# --------------------------------------------------------------------------------------
# 3. roles -> rows
# --------------------------------------------------------------------------------------

class Table:
    def __init__(self):
        self.rows: dict[tuple, list] = {}     # (role, loc, kind, locks) -> [source sites]
        self.site_locs: dict[tuple, set] = {}  # (file basename, line) -> set of locs
        self.gaps: list[str] = []
        self.reached: dict[str, set] = {}
        self.callbacks: dict[str, set] = {}
        self.lock_edges: dict[tuple, list] = {}  # (held lock, acquired lock) -> [sites]
        self.shared_access: set = set()        # locations with at least one access not through the creating variable
        self.confined: list[str] = []


def function_holders(prog: Program) -> dict:
    """which lambdas may be stored in which std::function location (fixpoint over fstore events)"""
    holds: dict = {}
    edges = []
    for key, s in prog.summaries.items():
        for ev in s["events"]:
            if ev[0] == "fstore":
                edges.append((ev[1], ev[2]))
    # assignments `field = std::move(param)` are found as W accesses of a function-typed field next to a
    # parameter of function type in the same (setter) function
    for key, fn in prog.functions.items():
        fparams = [i for i, p in enumerate(fn["params"])
                   if "function" in (p["dt"] or p["t"]) or re.search(r"(Handler|Callback|Builder)\b", p["t"] or "")]
        if not fparams or key not in prog.summaries:
            continue
        for ev in prog.summaries[key]["events"]:
            if ev[0] == "acc" and ev[2] == "W" and _is_function_loc(prog, ev[1]):
                for i in fparams:
                    edges.append((("F", ev[1]), ("P", key, i)))
    changed = True
    while changed:
        changed = False
        for dst, src in edges:
            cur = holds.setdefault(dst, set())
            add = {src[1]} if src[0] == "L" else holds.get(src, set())
            if not add <= cur:
                cur |= add
                changed = True
    return holds


def _is_function_loc(prog: Program, loc: str) -> bool:
    cls, _, fname = loc.rpartition("::")
    rec = prog.records.get(cls)
    if not rec:
        return False
    for f in rec["fields"]:
        if f["n"] == fname:
            t = (f["dt"] or "") + " " + (f["t"] or "")
            return "std::function" in t or bool(re.search(r"(Handler|Callback|Builder)\b", t))
    return False


def expand_loc(prog: Program, loc: str) -> list[str]:
    """a whole-object access of a Config-typed member touches every field of it"""
    if "." in loc:
        return [loc]
    cls, _, fname = loc.rpartition("::")
    rec = prog.records.get(cls)
    if rec:
        for f in rec["fields"]:
            if f["n"] == fname:
                if is_subfield_root(prog, loc):
                    r = prog.record_of_type(f["dt"] or f["t"])
                    return [f"{loc}.{g['n']}" for g in prog.records[r]["fields"]]
    return [loc]


def build_table(prog: Program, roles: dict, location_filter) -> Table:
    """roles: {role: {"multi": bool, "entries": [(function key, [initially held locks])]}}"""
    tab = Table()
    holds = function_holders(prog)
    tab.callbacks = {str(k): sorted(v) for k, v in holds.items()}
    for role, spec in roles.items():
        seen = set()
        reached = set()

        def go(key, held, env, depth=0):
            envk = tuple(sorted((k, tuple(sorted(v))) for k, v in env.items()))
            mk = (key, held, envk)
            if mk in seen or depth > 200:
                return
            seen.add(mk)
            s = prog.summaries.get(key)
            if s is None:
                tab.gaps.append(f"no body for {key} (reached by role {role})")
                return
            reached.add(key)
            for ev in s["events"]:
                typ = ev[0]
                locks = held | ev[5]
                if typ == "acc":
                    _row(ev[1], ev[2], ev[3], ev[4], locks, key, confined=len(ev) > 6 and ev[6])
                elif typ == "lock":
                    for l in ev[1]:
                        if l in locks:
                            if not ev[2]:   # a non-recursive mutex taken again by its owner
                                _edge(l, l, ev[3], ev[4], key)
                            continue
                        for h in locks:
                            _edge(h, l, ev[3], ev[4], key)
                elif typ == "pacc":
                    for l in resolve((P,) + tuple(ev[1]), env):  # resolved through the caller's binding
                        _row(l, ev[2], ev[3], ev[4], locks, key)
                elif typ == "call":
                    callee = ev[1]
                    nenv = dict(env) if "::lambda#" in callee else {}
                    if "::lambda#" in callee:
                        nenv = dict(env)
                    for i, rs in ev[2].items():
                        res = set()
                        for r in rs:
                            res |= {(F, l) for l in resolve(r, env)}
                        if res:
                            nenv[(callee, int(i))] = frozenset(res)
                    go(callee, locks, nenv, depth + 1)
                elif typ == "cbcall":
                    locs, plocs, lams = ev[1]
                    targets = set(lams)
                    for l in locs:
                        targets |= holds.get(("F", l), set())
                    for pl in plocs:
                        targets |= holds.get(("P", pl[0], pl[1]), set())
                        for r in env.get(tuple(pl), ()):  # function object reached through a bound reference
                            if r[0] == F:
                                targets |= holds.get(("F", r[1]), set())
                    if not targets:
                        tab.gaps.append(f"callback with no installer found: {list(locs) or list(plocs)} invoked at "
                                        f"{Path(ev[3] or '?').name}:{ev[4]} (role {role}); treated as not installed in the daemon")
                    for t in sorted(targets):
                        go(t, locks, {}, depth + 1)

        def _edge(h, l, f, line, key):
            sites = tab.lock_edges.setdefault((h, l), [])
            site = f"{role}: {Path(f or '?').name}:{line} in {key.replace('ephemeralnet::', '')}"
            if len(sites) < 3 and site not in sites:
                sites.append(site)

        def resolve(r, env):
            if r[0] == F:
                return {r[1]}
            out = set()
            for loc in env.get((r[1], r[2]), ()):
                l = loc[1]
                if len(r) > 3 and r[3] and is_subfield_root(prog, l):
                    l = l + "." + r[3]
                out.add(l)
            return out

        def _row(loc, kind, f, line, locks, key, confined=False):
            for l2 in expand_loc(prog, loc):
                if not location_filter(l2):
                    continue
                if not confined:
                    tab.shared_access.add(l2)
                rk = (role, l2, kind, tuple(sorted(locks)))
                sites = tab.rows.setdefault(rk, [])
                site = f"{Path(f or '?').name}:{line} in {key.replace('ephemeralnet::', '')}"
                if len(sites) < 4 and site not in sites:
                    sites.append(site)
                tab.site_locs.setdefault((Path(f or '?').name, line), set()).add(l2)

        for entry, init_locks in spec["entries"]:
            if entry not in prog.summaries:
                tab.gaps.append(f"entry point {entry} of role {role} not found in the AST")
                continue
            go(entry, frozenset(init_locks), {})
        tab.reached[role] = reached
    # fields of multi-instance objects that are only ever accessed through the local variable of the
    # function that allocated the object are confined to the creating thread, instance by instance
    for rk in list(tab.rows):
        loc = rk[1]
        if any(loc.startswith(m + "::") for m in MULTI_INSTANCE) and loc not in tab.shared_access:
            if loc not in tab.confined:
                tab.confined.append(loc)
            del tab.rows[rk]
    tab.gaps = sorted(set(tab.gaps))
    return tab


def reference_member_gaps(prog: Program) -> list[str]:
    out = []
    for cls in SINGLETONS + MULTI_INSTANCE:
        rec = prog.records.get(cls)
        if not rec:
            out.append(f"class {cls} not found in the AST")
            continue
        for f in rec["fields"]:
            t = f["dt"] or f["t"] or ""
            if t.rstrip().endswith("&") and f"{cls}::{f['n']}" not in REF_MEMBER_ALIASES and \
                    f"{cls}::{f['n']}" not in LOCK_ALIASES:
                out.append(f"reference member {cls}::{f['n']} ({t}) has no alias entry")
    return out


# --------------------------------------------------------------------------------------
# self-test of the analysis on props/C36_selftest.cpp
# --------------------------------------------------------------------------------------

def selftest_rows() -> tuple[set, list, list]:
    """rows (role, location, kind, locks) the extractor produces for the self-test input"""
    global SINGLETONS, MULTI_INSTANCE
    box, item = "ephemeralnet::selftest::Box", "ephemeralnet::selftest::Item"
    added = []
    for lst, q in ((SINGLETONS, box), (MULTI_INSTANCE, item)):
        if q not in lst:
            lst.append(q)
            added.append((lst, q))
    try:
        tu = load_tu(str(vlib.VERIF / "props" / "C36_selftest.cpp"), "ephemeralnet")
        prog = Program([tu])
        tops = [fn for k, fn in prog.functions.items() if "::lambda#" not in k]
        for _ in range(3):
            prog.summaries = {}
            for fn in tops:
                prog.summaries.update(FnAnalysis(prog, fn).summarize())
            new = {k: {x for x in v["ret"] if x[0] == F} for k, v in prog.summaries.items()}
            if new == prog.ret_roots:
                break
            prog.ret_roots = new
        roles = {"A": {"multi": False, "entries": [(box + "::entryA", [])]},
                 "B": {"multi": False, "entries": [(box + "::entryB", [])]},
                 "C": {"multi": False, "entries": [(box + "::entryC", [])]}}
        tab = build_table(prog, roles, lambda l: True)
        rows = {(rk[0], rk[1].split("selftest::")[-1], rk[2], tuple(l.split("::")[-1] for l in rk[3])) for rk in tab.rows}
        return rows, [c.split("selftest::")[-1] for c in tab.confined], tab.gaps
    finally:
        for lst, q in added:
            lst.remove(q)
