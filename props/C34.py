"""C34 — auto-advertise never publishes non-routable addresses unless allowed."""
from tools.vlib import *
from tools.vlib import _strip_comments

PID = "C34"
READY = True
MANIFEST = {
    "level_text": "Lean 4 theorems. (classify4/classify6) For every numeric IPv4 address and every numeric IPv6 address (8 groups) lying in "
                  "one of the blocks the property names (0/8, 10/8, 100.64/10, 127/8, 169.254/16, 172.16/12, 192.0.2/24, 192.168/16, "
                  "198.18/15, 198.51.100/24, 203.0.113/24, 224/3; ::, ::1, fc00::/7, fe80::/10, ff00::/8, 2001:db8::/32, and ::ffff:a.b.c.d "
                  "of any such IPv4 address), the canonical text of the address (inet_ntop / RFC 5952, defined as a Lean function and "
                  "cross-checked against glibc) is classified private/reserved by the model of is_private_or_reserved_host. (publish_*) For "
                  "the model of build_transport_advertise_candidates, Node::refresh_advertised_endpoints, preferred_control_endpoints, "
                  "self_endpoint and the manifest hint loop, for every STUN result (any text, or failure), control host, manual/stale "
                  "endpoint list, advertise host, transport port and fallback echo address: with allow_private=false no automatically "
                  "added entry of advertised_endpoints and no non-manual manifest hint passes the classifier, hence none is the canonical "
                  "text of a non-routable address; with mode off there are none at all (even with allow_private); in warn mode with "
                  "conflicting candidates there are none. The IPv4 range test is (T) translated statement by statement from the C++ on "
                  "every run, the IPv6 literal/prefix lists, reserved names and the mapped prefix are regenerated, and the whole model is "
                  "compared against the real classification functions and a real Node (STUN override hook) with a Lean monitor that judges "
                  "the implementation's outputs by the numeric specification.",
    "level_note": "Trusted: Lean kernel; the hand transcription of parse_ipv4/normalize_ipv6/is_private_or_reserved_ipv6/host and of the "
                  "Node-level decision logic (validated only by the differential run); glibc inet_ntop as the definition of canonical text "
                  "(fmt4/fmt6 are compared with it on every numeric case, they are not proved equal to it); std::isdigit/tolower in the C "
                  "locale; unordered_set de-duplication modelled on (host, port) pairs. Partial in these respects: the Node model covers "
                  "relay-less nodes without bootstrap nodes after start_transport; manual (control-scheme) hints such as the bound control "
                  "host are outside the property and not constrained; the announce-endpoint fallback of broadcast_manifest (used only when "
                  "no endpoint at all is configured) is not observed by the harness; host names (non-numeric text) are only shown to pass "
                  "the classifier (only literal addresses and `localhost` in any upper/lower-case spelling can be judged without a resolver; "
                  "`localhost.`, `x.localhost`, `.local`, `.internal` are ordinary names for code and spec); IPv4-compatible (::a.b.c.d), NAT64 and 6to4 forms "
                  "are not in the property's list and are not required to be filtered.",
    "technique": "Lean 4 proof over a translated/transcribed model of the classification and publication logic + model/implementation differential correspondence with Lean monitor",
}

SRC = "src/network/AdvertiseDiscovery.cpp"
NODE = "src/core/Node.cpp"


def harness():
    srcs = [s for s in ALL_CORE_SOURCES if s != SRC]
    return build_harness("advertise_h", "harness/advertise_h.cpp", srcs, includes_repo_cpp=True, libs=("-lcurl", "-lpthread"))


# ---------------------------------------------------------------------------------------------
# (T) translation
# ---------------------------------------------------------------------------------------------

def _function_body(text: str, header_re: str):
    m = re.search(header_re, text)
    if not m:
        return None
    i = text.index("{", m.end() - 1)
    depth = 0
    for j in range(i, len(text)):
        if text[j] == "{":
            depth += 1
        elif text[j] == "}":
            depth -= 1
            if depth == 0:
                return text[i + 1:j]
    return None


def _translate_cond(cond: str) -> str:
    """C++ condition over ip[0..3] with == >= <= > < && || ( ) and integer literals -> Lean Prop text."""
    toks = re.findall(r"ip\[\d\]|0x[0-9a-fA-F]+|\d+|==|!=|>=|<=|&&|\|\||[<>()]", cond)
    if "".join(toks) != re.sub(r"\s+", "", cond):
        raise ValueError(f"outside the translatable subset: {cond!r}")
    out = []
    for t in toks:
        if t.startswith("ip["):
            out.append("ip" + t[3])
        elif t == "==":
            out.append("=")
        elif t == "!=":
            out.append("≠")
        elif t == ">=":
            out.append("≥")
        elif t == "<=":
            out.append("≤")
        elif t == "&&":
            out.append("∧")
        elif t == "||":
            out.append("∨")
        elif t.startswith("0x"):
            out.append(str(int(t, 16)))
        else:
            out.append(t)
    return " ".join(out)


DEFAULT_V4 = ["ip0 = 10", "ip0 = 127", "ip0 = 0", "ip0 = 169 ∧ ip1 = 254", "ip0 = 172 ∧ ip1 ≥ 16 ∧ ip1 ≤ 31", "ip0 = 192 ∧ ip1 = 168",
              "ip0 = 100 ∧ ip1 ≥ 64 ∧ ip1 ≤ 127", "ip0 = 192 ∧ ip1 = 0 ∧ ip2 = 2", "ip0 = 198 ∧ ip1 = 51 ∧ ip2 = 100",
              "ip0 = 203 ∧ ip1 = 0 ∧ ip2 = 113", "ip0 = 198 ∧ ( ip1 = 18 ∨ ip1 = 19 )", "ip0 ≥ 224"]


def translate_v4(text: str):
    """is_private_or_reserved_ipv4: a sequence of `if (<cond>) return true;` followed by `return false;`."""
    body = _function_body(text, r"bool\s+is_private_or_reserved_ipv4\s*\([^)]*\)\s*\{")
    if body is None:
        raise ValueError("function not found")
    stmts = [s.strip() for s in body.split(";") if s.strip()]
    conds = []
    for s in stmts[:-1]:
        m = re.fullmatch(r"if\s*\((.*)\)\s*return\s+true", s, flags=re.S)
        if not m:
            raise ValueError(f"statement outside the translatable subset: {s!r}")
        conds.append(_translate_cond(m.group(1)))
    if stmts[-1] != "return false":
        raise ValueError("function does not end with `return false`")
    return conds


def lean_str(s: str) -> str:
    return '"' + s.replace("\\", "\\\\").replace('"', '\\"') + '"'


def extract():
    gaps = []
    try:
        text = _strip_comments((REPO / SRC).read_text(errors="replace"))
    except OSError as ex:
        text = ""
        gaps.append(f"{SRC}: {ex}")
    try:
        conds = translate_v4(text)
    except Exception as ex:
        gaps.append(f"is_private_or_reserved_ipv4 not translated ({ex}); using the last known body")
        conds = DEFAULT_V4
    v6 = _function_body(text, r"bool\s+is_private_or_reserved_ipv6\s*\([^)]*\)\s*\{") or ""
    exact = re.findall(r'normalized\s*==\s*"([^"]*)"', v6)
    prefixes = re.findall(r'normalized\.rfind\(\s*"([^"]*)"\s*,\s*0\s*\)\s*==\s*0', v6)
    mapped = re.search(r'kMappedPrefix\s*\{\s*"([^"]*)"\s*\}', v6)
    mapped_unparsed = re.search(r'if\s*\(\s*parse_ipv4\([^;]*?\)\s*\)\s*\{\s*return\s+is_private_or_reserved_ipv4\(mapped\);\s*\}\s*return\s+(true|false)\s*;', v6)
    if not exact:
        gaps.append("exact IPv6 literals not found"); exact = ["::", "::1"]
    if not prefixes:
        gaps.append("IPv6 prefixes not found"); prefixes = ["fc", "fd", "fe8", "fe9", "fea", "feb", "2001:db8", "ff"]
    if not mapped:
        gaps.append("kMappedPrefix not found (unrepaired tree?); model keeps the repaired behaviour")
    if not mapped_unparsed:
        gaps.append("mapped fall-through result not found")
    host = _function_body(text, r"bool\s+is_private_or_reserved_host\s*\([^)]*\)\s*\{") or ""
    names = re.findall(r'lowered\s*==\s*"([^"]*)"', host)
    exact_names = re.findall(r'\bhost\s*==\s*"([^"]*)"', host)      # names compared before lower-casing (case-sensitive)
    if not names:
        gaps.append("reserved host names not found"); names = ["localhost", "0.0.0.0"]
    invalid = re.search(r'bool\s+is_valid_host[^{]*\{\s*return\s+!host\.empty\(\)\s*&&\s*host\s*!=\s*"([^"]*)"', text)
    echo = re.search(r'return\s+"([0-9.]+)"\s*\+\s*std::to_string\(octet\(rng\)\)', text)
    rng = re.search(r'uniform_int_distribution<int>\s+octet\(\s*(\d+)\s*,\s*(\d+)\s*\)', text)
    methods = re.findall(r'append_candidate\([^;]*?"([a-z-]+)"\s*\)', _function_body(text, r"AdvertiseDiscoveryResult\s+build_transport_advertise_candidates\s*\([^)]*\)\s*\{") or "")
    preferred = re.search(r'kPreferredMethods\s*\{\s*"([^"]*)"\s*\}', text)
    if not invalid:
        gaps.append("is_valid_host literal not found")
    if not echo or not rng:
        gaps.append("fallback echo address not found")
    if methods != ["stun", "https-echo", "local-fallback", "local-fallback"]:
        gaps.append(f"candidate methods differ from the modelled ones: {methods}")
    body = []
    body.append("/-- `is_private_or_reserved_ipv4`, translated statement by statement (each `if (c) return true;` is one disjunct) -/")
    body.append("def isPrivateOrReservedIpv4 (ip0 ip1 ip2 ip3 : Nat) : Bool :=\n  decide (" + "\n    ∨ ".join(f"({c})" for c in conds) + ")")
    body.append(f"def kV4Clauses : Nat := {len(conds)}")
    body.append("/-- literals compared with `normalized ==` in `is_private_or_reserved_ipv6` -/")
    body.append("def kV6Exact : List String := [" + ", ".join(lean_str(s) for s in exact) + "]")
    body.append("/-- prefixes tested with `normalized.rfind(p, 0) == 0` -/")
    body.append("def kV6Prefixes : List String := [" + ", ".join(lean_str(s) for s in prefixes) + "]")
    body.append("/-- prefix of IPv4-mapped literals (empty: the tree has no such test) -/")
    body.append("def kMappedPrefix : String := " + lean_str(mapped.group(1) if mapped else "::ffff:"))
    body.append("/-- result for a mapped-prefixed literal whose tail is not a dotted IPv4 address -/")
    body.append("def kMappedUnparsed : Bool := " + ("true" if (mapped_unparsed is None or mapped_unparsed.group(1) == "true") else "false"))
    body.append("def kReservedNames : List String := [" + ", ".join(lean_str(s) for s in names) + "]")
    body.append("/-- names compared with the host text as given (`host == \"…\"`, case-sensitive); normally none -/")
    body.append("def kReservedNamesExact : List String := [" + ", ".join(lean_str(s) for s in exact_names) + "]")
    body.append("def kInvalidHost : String := " + lean_str(invalid.group(1) if invalid else "0.0.0.0"))
    body.append("def kEchoPrefix : String := " + lean_str(echo.group(1) if echo else "198.51.100."))
    body.append(f"def kEchoLo : Nat := {rng.group(1) if rng else 20}")
    body.append(f"def kEchoHi : Nat := {rng.group(2) if rng else 220}")
    body.append("def kPreferredMethod : String := " + lean_str(preferred.group(1) if preferred else "stun"))
    # Node.cpp: the policy gate of preferred_control_endpoints (present only on the repaired tree)
    try:
        node = _strip_comments((REPO / NODE).read_text(errors="replace"))
    except OSError:
        node = ""
    pce = _function_body(node, r"Node::preferred_control_endpoints\s*\(\s*\)\s*const\s*\{") or ""
    gate = re.search(r"publish_auto\s*=\s*config_\.advertise_auto_mode\s*==\s*Config::AdvertiseAutoMode::On\s*\|\|\s*"
                     r"\(\s*config_\.advertise_auto_mode\s*==\s*Config::AdvertiseAutoMode::Warn\s*&&\s*!config_\.auto_advertise_conflict\s*\)", pce)
    self_gate = re.search(r"is_publishable_auto_host\(config_,\s*parsed->first\)", pce)
    if not gate:
        gaps.append("preferred_control_endpoints: publish_auto gate not found (unrepaired tree?)")
    if not self_gate:
        gaps.append("preferred_control_endpoints: self endpoint filter not found (unrepaired tree?)")
    write_generated(PID, "\n".join(body))
    return gaps


# ---------------------------------------------------------------------------------------------
# generator
# ---------------------------------------------------------------------------------------------

V4_BLOCKS = [  # (base, prefix length) of every block the property names, plus neighbours that are routable
    ("0.0.0.0", 8), ("10.0.0.0", 8), ("100.64.0.0", 10), ("127.0.0.0", 8), ("169.254.0.0", 16), ("172.16.0.0", 12),
    ("192.0.2.0", 24), ("192.168.0.0", 16), ("198.18.0.0", 15), ("198.51.100.0", 24), ("203.0.113.0", 24), ("224.0.0.0", 3),
]
V6_BLOCKS = [("fc00::", 7), ("fe80::", 10), ("ff00::", 8), ("2001:db8::", 32), ("::ffff:0:0", 96), ("::", 128), ("::1", 128)]


def _v4n(text):
    a, b, c, d = (int(x) for x in text.split("."))
    return (a << 24) | (b << 16) | (c << 8) | d


def _v6n(text):
    import ipaddress
    return int(ipaddress.IPv6Address(text))


def h4(n):
    return f"{n & 0xffffffff:08x}"


def h6(n):
    return f"{n & ((1 << 128) - 1):032x}"


def v4_boundaries():
    """first/last address of every block, and the addresses just outside"""
    out = []
    for base, ln in V4_BLOCKS:
        lo = _v4n(base)
        hi = lo + (1 << (32 - ln)) - 1
        out += [lo, hi, lo - 1, hi + 1, lo + 1, hi - 1, lo + (1 << (32 - ln)) // 2]
    out += [0, 1, 0xffffffff, 0xfffffffe, _v4n("8.8.8.8"), _v4n("45.64.61.85"), _v4n("1.1.1.1"), _v4n("100.63.255.255"), _v4n("100.128.0.0"),
            _v4n("198.17.255.255"), _v4n("198.20.0.0"), _v4n("198.19.0.1"), _v4n("172.15.255.255"), _v4n("172.32.0.0"), _v4n("223.255.255.255"),
            _v4n("9.255.255.255"), _v4n("11.0.0.0"), _v4n("126.255.255.255"), _v4n("128.0.0.0"), _v4n("169.253.255.255"), _v4n("169.255.0.0"),
            _v4n("192.0.1.255"), _v4n("192.0.3.0"), _v4n("192.167.255.255"), _v4n("192.169.0.0"), _v4n("198.51.99.255"), _v4n("198.51.101.0"),
            _v4n("203.0.112.255"), _v4n("203.0.114.0"), _v4n("10.10.10.10"), _v4n("109.0.0.1"), _v4n("100.100.100.100"), _v4n("255.255.255.255")]
    return sorted({x & 0xffffffff for x in out})


def v6_structured(rng):
    out = []
    for base, ln in V6_BLOCKS:
        lo = _v6n(base)
        hi = lo + (1 << (128 - ln)) - 1
        out += [lo, hi, lo - 1, hi + 1, lo + 1, hi - 1]
        for _ in range(3):
            out.append(lo + rng.randrange(1 << (128 - ln)) if ln < 128 else lo)
    # IPv4-mapped forms of every IPv4 boundary, and the IPv4-compatible / NAT64 neighbours that are not mapped
    for n in v4_boundaries():
        out.append((0xffff << 32) | n)
    for n in rng.sample(v4_boundaries(), 12):
        out += [n, (0xfffe << 32) | n, (1 << 48) | (0xffff << 32) | n, (0x64ff9b << 96) | n]
    # zero-run shapes: every pattern of zero / non-zero groups (RFC 5952 compression choices)
    for pat in range(256):
        g = [(0 if (pat >> i) & 1 else rng.choice([1, 0xa, 0xff, 0x100, 0xfff, 0x1000, 0xffff, 0xdb8, rng.randrange(1, 65536)])) for i in range(8)]
        out.append(sum(x << (16 * (7 - i)) for i, x in enumerate(g)))
    # leading group shapes for the prefix tests: fc/fd/fe8-feb/ff vs. short groups that only look alike (00fc::, 0fe8::, ff::)
    for g0 in [0xfc, 0xfd, 0xfc0, 0xfe8, 0xfe80, 0xfe7f, 0xfebf, 0xfec0, 0xfbff, 0xfe00, 0xff, 0xff0, 0xff00, 0xfeff, 0xfc00, 0xfdff, 0x2001, 0x2002, 0x201, 0xf, 0xfe, 0xfeb0]:
        for g1 in [0, 0xdb8, 0xdb80, 0xdb7, 0xdb9, 0x0db8, 1]:
            out.append((g0 << 112) | (g1 << 96) | rng.choice([0, 1, rng.randrange(1 << 96)]))
    return [x & ((1 << 128) - 1) for x in out]


ODD_TEXTS = [
    "localhost", "LOCALHOST", "LocalHost", "localhost.", "0.0.0.0", "0.0.0.0.", "example.com", "node-1.example.net", "a", "1", "1.2.3", "1.2.3.4.5",
    "1..2.3", ".1.2.3", "1.2.3.", "256.1.1.1", "1.256.1.1", "01.02.03.04", "010.0.0.1", "0010.0.0.1", "10.0.0.01", "00000000010.0.0.1", "10.0.0.1 ",
    "10.0.0.1x", "x10.0.0.1", "1e1.0.0.1", "+10.0.0.1", "-1.0.0.1", "10,0,0,1", "999999999999.0.0.1", "4294967306.0.0.1", "10.0.0.256", "10.0.0.255",
    "255.255.255.255", "::", "::1", "::2", "::ffff:10.0.0.1", "::FFFF:10.0.0.1", "::ffff:a00:1", "::ffff:0a00:0001", "::ffff:808:808", "::ffff:8.8.8.8",
    "::ffff:10.0.0", "::ffff:", "::ffff", "::fff:10.0.0.1", "0:0:0:0:0:ffff:10.0.0.1", "0:0:0:0:0:ffff:a00:1", "::ffff:198.19.0.1", "::ffff:198.20.0.1",
    "::10.0.0.1", "64:ff9b::10.0.0.1", "[::1]", "[::ffff:10.0.0.1]", "[fe80::1%eth0]", "fe80::1%eth0", "FE80::1", "Fe80::1", "fe7f::1", "fec0::1", "febf::1",
    "fc00::1", "FC00::1", "fd12:3456::1", "fb00::1", "fe00::1", "ff02::1", "FF02::1", "ff::1", "fc::1", "fd::", "fe8::1", "2001:db8::1", "2001:DB8::1",
    "2001:0db8::1", "2001:db80::1", "2001:db7::1", "2001:db9::1", "2001:4860:4860::8888", "2606:4700:4700::1111", "[2001:db8::1]", "[", "]", "[]", "[[::1]]",
    "%", "%eth0", "::1%", "[::1%lo]", ":", ":::", "1:2", "fc", "fd", "ff", "fe8", "feb", "fec", "2001:db8", "::%1", "[fe80::1", "fe80::1]", "Ä.example", "ÿ:1",
]


def gen_classify(ctx, n_random, exhaustive16):
    rng = ctx.rng
    ops = []
    for x in v4_boundaries():
        ops.append((f"c4 {h4(x)}", "c4/boundary"))
    if exhaustive16:
        # all 2^16 /16 prefixes x sample hosts
        for p in range(65536):
            for host in (0, 1, 0x0201, 0x6401, 0x7100, 0xffff, rng.randrange(65536)):
                ops.append((f"c4 {h4((p << 16) | host)}", "c4/all-prefixes"))
    else:
        for p in rng.sample(range(65536), 1500):
            ops.append((f"c4 {h4((p << 16) | rng.randrange(65536))}", "c4/prefix-sample"))
    for x in v6_structured(rng):
        ops.append((f"c6 {h6(x)}", "c6/structured"))
    for _ in range(n_random):
        # random addresses with a bias towards many zero groups (compression) and small groups (short hex)
        g = [rng.choice([0, 0, 0, 1, rng.randrange(16), rng.randrange(256), rng.randrange(4096), rng.randrange(65536), 0xffff]) for _ in range(8)]
        ops.append((f"c6 {h6(sum(x << (16 * (7 - i)) for i, x in enumerate(g)))}", "c6/random"))
        ops.append((f"c6 {h6(rng.getrandbits(128))}", "c6/random"))
        ops.append((f"c4 {h4(rng.getrandbits(32))}", "c4/random"))
    for t in ODD_TEXTS:
        if " " in t:
            continue
        ops.append((f"cls t:{t}", "text/spelling"))
        ops.append((f"p4 t:{t}", "text/parse4"))
    for _ in range(n_random // 4):
        alpha = "0123456789.:fFcCdDeE8aAbB[]%xlocahst"
        t = "".join(rng.choice(alpha) for _ in range(rng.choice([1, 2, 3, 5, 7, 9, 12, 15, 20])))
        ops.append((f"cls t:{t}", "text/random"))
        if rng.random() < 0.5:
            parts = [rng.choice(["0", "1", "9", "10", "99", "100", "199", "249", "255", "256", "260", "300", "999", "00", "007", "", "1a", "25 5".replace(" ", "")]) for _ in range(rng.choice([3, 4, 4, 4, 5]))]
            ops.append((f"p4 t:{'.'.join(parts)}", "text/parse4-random"))
    ops.append(("cls -", "text/spelling"))
    return ops


def _host_tokens(rng):
    v4 = v4_boundaries()
    pub4 = [_v4n("45.64.61.85"), _v4n("8.8.8.8"), _v4n("198.20.0.1"), _v4n("100.128.0.1"), _v4n("172.32.0.1")]
    priv4 = [_v4n("10.0.0.5"), _v4n("192.168.1.10"), _v4n("100.64.0.1"), _v4n("198.19.0.1"), _v4n("169.254.1.1"), _v4n("127.0.0.1"), _v4n("203.0.113.9"), _v4n("240.0.0.1")]
    pub6 = [_v6n("2001:4860:4860::8888"), _v6n("2606:4700::1111"), _v6n("::ffff:8.8.8.8"), _v6n("2001:db9::1")]
    priv6 = [_v6n("::ffff:10.0.0.1"), _v6n("::ffff:198.19.0.1"), _v6n("fe80::1"), _v6n("fd00::1"), _v6n("2001:db8::7"), _v6n("::1"), _v6n("::"), _v6n("ff02::1"), _v6n("::ffff:100.64.0.1")]
    r = rng.random()
    if r < 0.25:
        return "4:" + h4(rng.choice(pub4))
    if r < 0.5:
        return "4:" + h4(rng.choice(priv4))
    if r < 0.6:
        return "4:" + h4(rng.choice(v4))
    if r < 0.75:
        return "6:" + h6(rng.choice(priv6))
    if r < 0.85:
        return "6:" + h6(rng.choice(pub6))
    if r < 0.9:
        return "t:" + rng.choice(["node.example", "localhost", "::ffff:a00:1", "0.0.0.0", "stun.invalid", "[fe80::1%eth0]", "10.0.0.1x"])
    return "6:" + h6(rng.choice(v6_structured(rng)))


LOOPBACK_SPELLINGS = ["localhost", "LOCALHOST", "LocalHost", "Localhost", "localHost", "lOCALHOST", "LOCALHOSt", "LoCaLhOsT"]
OTHER_NAMES = ["localhost.", "LOCALHOST.", "a.localhost", "A.LocalHost", "host.local", "HOST.LOCAL", "node.internal", "Node.Internal",
               "printer.lan", "localhos", "localhostx", "xlocalhost", "local host".replace(" ", "-"), "localhost:80", "node.example", "NODE.EXAMPLE",
               "Example.COM", "example.com.", "0.0.0.0", "0.0.0.0.", "stun.l.google.com", "LOCALHOST%1", "[localhost]"]


def _case_mix(rng, name):
    return "".join(ch.upper() if rng.random() < 0.5 else ch.lower() for ch in name)


def gen_names(ctx, n):
    """host NAMES as control host / STUN-reported host, aimed at the local-fallback branch: allow_private=false and no
    usable STUN/echo candidate (STUN failed/disabled, or it reported something the filter drops)."""
    rng = ctx.rng
    ops = []
    spellings = LOOPBACK_SPELLINGS + OTHER_NAMES
    for t in spellings:
        ops.append((f"cls t:{t}", "names/classify"))
    for _ in range(n):
        ops.append((f"cls t:{_case_mix(rng, rng.choice(['localhost', 'localhost', 'localhost.', 'a.localhost', 'host.local', 'node.internal', 'node.example']))}", "names/classify"))

    def name_tok():
        r = rng.random()
        if r < 0.45:
            return "t:" + (rng.choice(LOOPBACK_SPELLINGS) if rng.random() < 0.5 else _case_mix(rng, "localhost"))
        if r < 0.9:
            return "t:" + (rng.choice(OTHER_NAMES) if rng.random() < 0.6 else _case_mix(rng, rng.choice(OTHER_NAMES)))
        return "-"

    def no_candidate_ext():
        # external address that yields no stun/echo candidate when private advertising is not allowed
        return rng.choice(["t:0.0.0.0", "-", "4:" + h4(_v4n("10.0.0.9")), "4:" + h4(_v4n("192.168.1.1")), "6:" + h6(_v6n("fe80::1")), name_tok()])

    for _ in range(n):
        priv = rng.choice("0001")
        ok = rng.choice("01")
        ext = no_candidate_ext() if rng.random() < 0.8 else "4:" + h4(_v4n("45.64.61.85"))
        ops.append((f"bt {priv} {ok} {ext} {rng.choice([45050, 0])} {name_tok()} {rng.choice([47000, 47000, 1])}", "names/bt"))
    for _ in range(max(8, n // 6)):
        mode = rng.choice(["on", "on", "warn", "off"])
        priv = rng.choice("0001")
        stun = rng.choice(["fail", "fail", "off", "4:" + h4(_v4n("10.0.0.9")), "6:" + h6(_v6n("::ffff:10.0.0.1")), name_tok(), "4:" + h4(_v4n("45.64.61.85"))])
        eps = "-" if rng.random() < 0.7 else "t:m.example|0|1"
        ops.append((f"node {mode} {priv} {stun} {name_tok()} - - {eps}", f"names/node/{mode}/priv{priv}"))
    return ops


def gen_bt(ctx, n):
    rng = ctx.rng
    ops = []
    for _ in range(n):
        priv = rng.choice("01")
        ok = rng.choice("011")
        ext = _host_tokens(rng) if rng.random() < 0.85 else rng.choice(["-", "t:0.0.0.0"])
        ch = _host_tokens(rng) if rng.random() < 0.75 else rng.choice(["-", "t:0.0.0.0", "4:7f000001"])
        extp = rng.choice([45050, 45050, 0, 1, 65535, 47000])
        tp = rng.choice([47000, 47000, 0, 1, 65535])
        ops.append((f"bt {priv} {ok} {ext} {extp} {ch} {tp}", "bt"))
    return ops


def gen_node(ctx, n):
    rng = ctx.rng
    ops = []
    for _ in range(n):
        mode = rng.choice(["on", "on", "warn", "warn", "off"])
        priv = rng.choice("0001")
        if mode == "warn" and rng.random() < 0.6:
            priv = "1"          # conflicts only arise when private advertising is allowed
        stun = _host_tokens(rng) if rng.random() < 0.85 else rng.choice(["fail", "off", "-"])
        ch = rng.choice(["4:7f000001", "4:7f000001", "-", "t:0.0.0.0"]) if rng.random() < 0.45 else _host_tokens(rng)
        advh, advp = "-", "-"
        if rng.random() < 0.2:
            advh = rng.choice(["t:pub.example", "4:" + h4(_v4n("45.64.61.85")), "4:" + h4(_v4n("10.9.9.9"))])
            advp = rng.choice(["-", "61000", "0"])
        eps = "-"
        if rng.random() < 0.3:
            items = []
            for _ in range(rng.choice([1, 1, 2, 3])):
                host = rng.choice(["t:m.example", "t:m2.example", stun if stun not in ("fail", "off") else "t:m3.example", "4:" + h4(_v4n("45.64.61.85")), "-"])
                items.append(f"{host}|{rng.choice([0, 0, 60500, 61500])}|{rng.choice('1110')}")
            eps = ";".join(items)
        ops.append((f"node {mode} {priv} {stun} {ch} {advh} {advp} {eps}", f"node/{mode}/priv{priv}"))
    return ops


def _pack(ops, per_case):
    """group (op, tag) pairs of the same tag family into cases"""
    by = {}
    for op, tag in ops:
        by.setdefault(tag, []).append(op)
    cases = []
    for tag, lst in by.items():
        for i in range(0, len(lst), per_case):
            cases.append(Case(ops=lst[i:i + per_case], tag=tag))
    return cases


def generate(ctx, budget):
    thorough = ctx.tier == "thorough"
    cls_ops = gen_classify(ctx, n_random=budget, exhaustive16=thorough)
    cases = _pack(cls_ops, 400 if thorough else 60)
    cases += _pack(gen_bt(ctx, budget // 2), 40)
    cases += _pack(gen_names(ctx, max(120, budget // 8)), 12)
    cases += _pack(gen_node(ctx, max(40, budget // (12 if thorough else 25))), 6)
    ctx.rng.shuffle(cases)
    return cases


def nontrivial(r: CaseResult) -> bool:
    """a case counts when its outputs are not all equal (both classes / different candidate sets occur)"""
    return len(set(r.impl)) > 1


def post(ctx, results):
    h = {}
    for r in results:
        for op, o in zip(r.case.ops, r.impl):
            k = op.split(" ", 1)[0]
            if k in ("c4", "c6", "cls"):
                key = f"{k}:{'private' if o.endswith('1') else 'routable'}"
            elif k == "node":
                f = dict(x.split("=", 1) for x in o.split(" ") if "=" in x)
                key = "node:" + ("auto-published" if ("transport|" in f.get("hints", "") or "0|" in f.get("adv", "")) else "nothing-auto")
                if f.get("conflict") == "1":
                    ctx.hist("impl:node:conflict")
            elif k == "bt":
                key = "bt:" + ("cands" if "cand=-" not in o else "no-cands")
            else:
                key = k
            h[key] = h.get(key, 0) + 1
    for k, v in sorted(h.items()):
        ctx.hist("impl:" + k, v)


def spec() -> Spec:
    return Spec(
        pid=PID,
        proof_modules=["EphVerif.Proofs.C34"],
        driver="drv_c34",
        harness=harness,
        generate=generate,
        extract=extract,
        nontrivial=nontrivial,
        post=post,
        budget={"quick": 1500, "thorough": 20000},
        search_budget={"quick": 3000, "thorough": 20000},
        divergence_is_violation=False,
        batch=3000,
        per_case_timeout=60.0,
        rule="numeric addresses are turned into text by inet_ntop in the harness and by fmt4/fmt6 in the model (both texts compared); IPv4: "
             "first/last/+-1 of every block the property names plus neighbours, a sample of /16 prefixes (quick) or all 2^16 /16 prefixes x 7 "
             "hosts (thorough), random; IPv6: block boundaries +-1, IPv4-mapped forms of every IPv4 boundary and look-alikes (::fffe:, NAT64, "
             "IPv4-compatible), all 256 zero/non-zero group patterns, leading-group look-alikes (fc::, fe8::, ff::), random with many zero "
             "groups; text spellings (upper case, brackets, zone ids, non-canonical, malformed); build_transport_advertise_candidates on "
             "hand-made NAT results; host NAMES (localhost in lower/UPPER/mixed case, trailing dot, .localhost/.local/.internal, other "
             "names) as control host and as STUN-reported host with allow_private=false and no usable STUN/echo candidate (local-fallback "
             "branch), judged by the clause `localhost in any case is loopback`; a real Node per `node` op (STUN override, all three modes, allow_private on/off, control host, manual and "
             "stale endpoints) observed at Config::advertised_endpoints and Manifest::discovery_hints; non-trivial = outputs of a case not all equal",
        trusted_base=["inet_ntop (glibc) as the definition of canonical text: fmt4/fmt6 are compared with it on every numeric case",
                      "std::isdigit/std::tolower in the \"C\" locale; std::unordered_set/std::string semantics",
                      "Node is run with relay disabled and no bootstrap nodes; the listener port and the seeded fallback echo address are taken "
                      "from the implementation's output as inputs of the model"],
        assumptions=["a STUN-reported address is the inet_ntop text of a numeric address (parse_stun_response produces nothing else, C33)",
                     "Node::start_transport has run (nat_status_ is set whenever the transport port is non-zero)"],
    )


def run(tier, seed, replay=None):
    return standard_check(spec(), tier, seed, replay)


if __name__ == "__main__":
    print(extract())
