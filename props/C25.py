"""C25 — relay bridges deliver bytes only to the bridged partner.

Shared with C26 (props/C26.py imports harness(), extract() and the generators from here)."""
from tools.vlib import *
from tools import vlib

PID = "C25"
READY = True
MANIFEST = {
    "level_text": "Lean 4 theorems about an executable model of RelayServer (sessions, registered_, read/write buffers, partner "
                  "pointers; events accept / one recv() chunk / EOF / error / partial write), for every event sequence over any number of "
                  "clients and ids: the pairing table is symmetric, pairs two distinct live sessions, a peer is claimed by at most one "
                  "connector, a bridged session has a bridged partner (C25.inv); a chunk received from a bridged client is appended whole "
                  "to the end of exactly its partner's write buffer and nothing else changes (delivery, delivery_spec); when a bridge comes "
                  "into being the partner is queued the BEGIN line and then everything the connector had pending, in order "
                  "(bridge_handover, bridge_drained); for every split of the relay's writes into partial writes the receiver has a prefix "
                  "of what was queued and the rest is still buffered (partial_flush); every write buffer "
                  "is a FIFO of exactly what was queued for that client (fifo, flush_fifo); every byte a step queues is either a reply "
                  "to the sending client or goes to the client whose bridge with the sender is established after the step, relayed bytes "
                  "being the sender's own (relay_only_to_bridged_partner, isolation_spec); EOF/error on one side of a bridge closes the "
                  "other side in the same step (teardown). The model is tied to the code by regenerated protocol words, reply texts, "
                  "identity size and recv chunk size, and by a differential run of the real RelayServer (real loopback sockets, "
                  "harness-scheduled events) against the compiled model, with the same Lean specification predicates judging the "
                  "implementation's own session table and per-client received bytes after every op.",
    "level_note": "Trusted: Lean kernel; hand transcription of RelayServer.cpp into Lean (checked only by the differential run, which "
                  "compares per-client bytes, closures, session states, partners, read-buffer sizes, registrations and fd counts after "
                  "every op); kernel TCP semantics; weak_ptr::lock() modelled as 'session still in sessions_'. Not covered: EventLoop::run "
                  "dispatch (the harness calls accept_new_clients/on_client_event itself), send() errors (model event `err`, not "
                  "provoked). Partial writes are provoked (4 KiB socket buffers, stalled readers) and judged on the cumulative stream. The theorems hold for the repaired "
                  "code (fixes/C25-reregister-claimed.patch); the unrepaired tree fails the check with signature claim-unique.",
    "technique": "Lean 4 invariant proof over all event sequences (induction over histories) + model/implementation differential "
                 "correspondence on real sockets with a Lean monitor",
}

RELAY_CPP = "src/relay/RelayServer.cpp"


def harness():
    return build_harness("relay_h", "harness/relay_h.cpp",
                         ["src/relay/RelayServer.cpp", "src/relay/EventLoop.cpp", "src/core/Types.cpp"],
                         includes_repo_cpp=False)


# --------------------------------------------------------------------------------------
# (T) extraction: protocol words, reply texts, identity size, recv chunk size
# --------------------------------------------------------------------------------------

def _cxx_unescape(lit: str) -> bytes:
    out = bytearray()
    i = 0
    esc = {"n": 10, "r": 13, "t": 9, "0": 0, "\\": 92, '"': 34, "'": 39}
    while i < len(lit):
        ch = lit[i]
        if ch == "\\" and i + 1 < len(lit):
            out.append(esc.get(lit[i + 1], ord(lit[i + 1])))
            i += 2
        else:
            out += ch.encode()
            i += 1
    return bytes(out)


def _function_body(text: str, name: str) -> str:
    m = re.search(r"\n\w[\w:<> ,*&]*\s+RelayServer::" + re.escape(name) + r"\s*\(", text)
    if not m:
        raise ValueError(f"function {name} not found")
    start = text.index("{", m.end())
    depth = 0
    for i in range(start, len(text)):
        if text[i] == "{":
            depth += 1
        elif text[i] == "}":
            depth -= 1
            if depth == 0:
                return text[start:i + 1]
    raise ValueError(f"function {name}: unbalanced braces")


def _lean_bytes(b: bytes) -> str:
    return "[" + ", ".join(str(x) for x in b) + "]"


# name -> (function, regex with one group holding the C++ string literal body, default)
_TEXTS = [
    ("cmdRegister", "handle_line", r'command\s*==\s*"(REGISTER)"', b"REGISTER"),
    ("cmdConnect", "handle_line", r'command\s*==\s*"(CONNECT)"', b"CONNECT"),
    ("cmdPong", "handle_line", r'command\s*==\s*"(PONG)"', b"PONG"),
    ("errInvalidArgs", "handle_line", r'tokens\.size\(\)\s*!=\s*2\s*\)\s*\{\s*queue_text\(session,\s*"((?:[^"\\]|\\.)*)"', b"ERROR invalid-args\n"),
    ("errUnknownCommand", "handle_line", r'else\s*\{\s*queue_text\(session,\s*"((?:[^"\\]|\\.)*)"', b"ERROR unknown-command\n"),
    ("errRegNotHex", "handle_register", r'!is_hex_string\(peer_hex\)\s*\)\s*\{\s*queue_text\(session,\s*"((?:[^"\\]|\\.)*)"', b"ERROR invalid-peer\n"),
    ("errRegBadLength", "handle_register", r'!peer\.has_value\(\)\s*\)\s*\{\s*queue_text\(session,\s*"((?:[^"\\]|\\.)*)"', b"ERROR invalid-peer\n"),
    ("errAlreadyClaimed", "handle_register", r'session->partner\.lock\(\)\s*\)\s*\{(?:\s*//[^\n]*)*\s*queue_text\(session,\s*"((?:[^"\\]|\\.)*)"', b"ERROR already-claimed\n"),
    ("okRegister", "handle_register", r'registered_\[[^\]]*\]\s*=\s*session;\s*queue_text\(session,\s*"((?:[^"\\]|\\.)*)"', b"OK\n"),
    ("errAlreadyRegistered", "handle_connect", r'SessionState::Registered\s*\)\s*\{\s*queue_text\(session,\s*"((?:[^"\\]|\\.)*)"', b"ERROR already-registered\n"),
    ("errConInvalidPeer", "handle_connect", r'!is_hex_string\(target_hex\)\s*\)\s*\{\s*queue_text\(session,\s*"((?:[^"\\]|\\.)*)"', b"ERROR invalid-peer\n"),
    ("errInvalidTarget", "handle_connect", r'self_hex\s*==\s*target_hex\s*\)\s*\{\s*queue_text\(session,\s*"((?:[^"\\]|\\.)*)"', b"ERROR invalid-target\n"),
    ("errConTargetUnavailable", "handle_connect", r'!target\s*\)\s*\{\s*queue_text\(session,\s*"((?:[^"\\]|\\.)*)"', b"ERROR target-unavailable\n"),
    ("okConnect", "handle_connect", r'target->partner\s*=\s*session;\s*queue_text\(session,\s*"((?:[^"\\]|\\.)*)"', b"OK\n"),
    ("errIdTargetUnavailable", "handle_identity_ready", r'!target\s*\)\s*\{\s*queue_text\(session,\s*"((?:[^"\\]|\\.)*)"', b"ERROR target-unavailable\n"),
    ("beginPrefix", "handle_identity_ready", r'begin_line\s*=\s*"((?:[^"\\]|\\.)*)"\s*\+', b"BEGIN "),
]


def extract():
    gaps: list[str] = []
    lines: list[str] = []
    try:
        raw = (REPO / RELAY_CPP).read_text(errors="replace")
    except OSError as ex:
        raw = ""
        gaps.append(f"{RELAY_CPP}: {ex}")
    # comments are kept for the one pattern that has to skip them; all others never span a comment
    nums = {"kPeerIdBytes": 32, "recvChunk": 4096}
    try:
        types = vlib._strip_comments((REPO / "include/ephemeralnet/Types.hpp").read_text(errors="replace"))
        m = re.search(r"using\s+PeerId\s*=\s*std::array<\s*std::uint8_t\s*,\s*([^>]+)>", types)
        if m and re.search(r"kPeerIdBytes\s*=\s*sizeof\(PeerId\)", raw):
            nums["kPeerIdBytes"] = eval_cxx_int(m.group(1))
        else:
            gaps.append("kPeerIdBytes: sizeof(PeerId) pattern not found")
    except Exception as ex:
        gaps.append(f"kPeerIdBytes: {ex}")
    try:
        body = _function_body(raw, "handle_read")
        m = re.search(r"std::array<\s*char\s*,\s*([^>]+)>\s*buffer", body)
        if m:
            nums["recvChunk"] = eval_cxx_int(m.group(1))
        else:
            gaps.append("recvChunk: buffer declaration not found in handle_read")
    except Exception as ex:
        gaps.append(f"recvChunk: {ex}")
    for k, v in nums.items():
        lines.append(f"def {k} : Nat := {v}")
    for name, fn, pat, default in _TEXTS:
        val = default
        try:
            body = _function_body(raw, fn)
            m = re.search(pat, body, flags=re.S)
            if not m:
                raise ValueError("pattern not found")
            val = _cxx_unescape(m.group(1))
        except Exception as ex:
            gaps.append(f"{name} ({fn}): {ex}")
        shown = val.decode("latin1").replace("\n", "\\n")
        lines.append(f"/-- `{shown}` -/\ndef {name} : List UInt8 := {_lean_bytes(val)}")
    write_generated("C25", "\n".join(lines))
    return gaps


# --------------------------------------------------------------------------------------
# Generators (shared with C26)
# --------------------------------------------------------------------------------------

def hx(b) -> str:
    if isinstance(b, str):
        b = b.encode("latin1")
    return b.hex() if b else "-"


def snd(k, b) -> str:
    return f"snd {k} {hx(b)}"


def peer_hex(i: int, upper: bool = False) -> str:
    s = ("%02x" % (0xa0 + i)) * 32
    return s.upper() if upper else s


def spell(rng, i: int, mode: str = "") -> str:
    """the 64 hex digits of peer id i written lower / UPPER / MiXed (each letter digit's case chosen at random)"""
    base = peer_hex(i)
    mode = mode or rng.choice(["lower", "upper", "mixed", "mixed"])
    if mode == "lower":
        return base
    if mode == "upper":
        return base.upper()
    out = "".join(ch.upper() if rng.random() < 0.5 else ch for ch in base)
    return out if out != base else base[:-2] + base[-2:].upper()


BOUNDARY_SIZES = [1, 31, 32, 33, 63, 64, 65, 4095, 4096, 4097, 8192, 16383, 16384, 16385, 20000]


def rand_bytes(rng, n: int) -> bytes:
    return bytes(rng.randrange(256) for _ in range(n))


def data_payload(rng, big_ok: bool = True) -> str:
    """payload token for a data `snd` (hex or HEX*N parts)"""
    r = rng.random()
    if r < 0.55:
        return hx(rand_bytes(rng, rng.randint(1, 24)))
    if r < 0.70:
        return hx(rng.choice([b"PONG\n", b"REGISTER " + peer_hex(rng.randrange(3)).encode() + b"\n", b"\n", b"\r\n", b"hello\nworld",
                              b"CONNECT " + peer_hex(1).encode() + b" " + peer_hex(0).encode() + b"\n"]))
    if r < 0.85 or not big_ok:
        return hx(rand_bytes(rng, rng.choice([31, 32, 33, 63, 64, 65, 100, 161])))
    n = rng.choice(BOUNDARY_SIZES[7:])
    head = rand_bytes(rng, 3)
    return f"{hx(head)}+{'%02x' % rng.randrange(256)}*{n - 3}"


def split_random(rng, b: bytes, pieces: int) -> list[bytes]:
    if pieces <= 1 or len(b) < 2:
        return [b]
    cuts = sorted(rng.sample(range(1, len(b)), min(pieces - 1, len(b) - 1)))
    out, prev = [], 0
    for c in cuts + [len(b)]:
        out.append(b[prev:c])
        prev = c
    return out


def target_script(rng, k: int, ident: int, *, rereg: float, chatter: float, spelled: bool = False) -> list[list[str]]:
    """phases: 0 register, 1 (after being claimed) extra commands, 3 data, 4 leave"""
    ph = [[], [], [], [], []]
    first = spell(rng, ident) if spelled else peer_hex(ident, upper=rng.random() < 0.15)
    reg = b"REGISTER " + first.encode() + (b"\r\n" if rng.random() < 0.2 else b"\n")
    for piece in split_random(rng, reg, rng.choice([1, 1, 1, 2, 3])):
        ph[0].append(snd(k, piece))
    if rng.random() < rereg:
        again_id = ident if rng.random() < 0.6 else rng.randrange(3)
        again = b"REGISTER " + (spell(rng, again_id) if spelled else peer_hex(again_id)).encode() + b"\n"
        ph[1].append(snd(k, again))
    if rng.random() < chatter:
        ph[1].append(snd(k, rng.choice([b'PONG', b'PONG\n', b'PING\n', b'CONNECT ' + peer_hex(2).encode() + b' ' + peer_hex(ident).encode() + b'\n', b'xx'])))
    for _ in range(rng.choice([0, 1, 1, 2, 3])):
        ph[3].append(f"snd {k} {data_payload(rng)}")
    return ph


def connector_script(rng, k: int, self_id: int, target_id: int, *, spelled: bool = False, target_mode: str = "") -> list[list[str]]:
    ph = [[], [], [], [], []]
    self_text = spell(rng, self_id) if spelled else peer_hex(self_id)
    target_text = spell(rng, target_id, target_mode) if spelled else peer_hex(target_id)
    con = b"CONNECT " + self_text.encode() + b" " * rng.choice([1, 1, 1, 2]) + target_text.encode() + (b"\r\n" if rng.random() < 0.2 else b"\n")
    identity = rand_bytes(rng, 32)
    if rng.random() < 0.35:   # an identity whose early bytes contain newlines / look like a command line
        head = rng.choice([b"\n", b"PONG\n", b"\r\n\n", b"REGISTER \n", b"x\ny\n", b"CONNECT a b\n"])
        identity = head + identity[len(head):]
    style = rng.choice(["plain", "plain", "pipelined", "fragments", "fragments", "all-in-one", "short"])
    if style == "plain":
        ph[1].append(snd(k, con))
        ph[2].append(snd(k, identity))
    elif style == "pipelined":
        ph[1].append(snd(k, con + identity))
    elif style == "all-in-one":
        ph[1].append(snd(k, con + identity + rand_bytes(rng, rng.choice([1, 5, 40]))))
    elif style == "fragments":
        for piece in split_random(rng, con, rng.choice([1, 2, 3])):
            ph[1].append(snd(k, piece))
        for piece in split_random(rng, identity, rng.choice([2, 3, 4])):
            ph[2].append(snd(k, piece))
    else:  # identity one byte short, completed by the first data byte(s)
        ph[1].append(snd(k, con))
        ph[2].append(snd(k, identity[:31]))
    for _ in range(rng.choice([0, 1, 2, 3])):
        ph[3].append(f"snd {k} {data_payload(rng)}")
    return ph


BURST_SIZES = [4063, 4064, 4065, 4096, 4097, 8160, 8192, 12000, 16351, 16352, 16353, 16384, 20000, 40000, 65536]


def burst_payload(rng, size: int) -> str:
    """`size` bytes of post-identity data as payload parts: no newline at all / newlines inside / lines that look like
    relay commands"""
    kind = rng.choice(["plain", "newlines", "commands", "commands", "mixed"])
    if kind == "plain":
        b = "%02x" % rng.choice([x for x in range(256) if x != 10])
        return f"{hx(bytes(x for x in rand_bytes(rng, 8) if x != 10) or b'x')}+{b}*{max(1, size - 8)}"
    if kind == "newlines":
        line = bytes(x for x in rand_bytes(rng, rng.choice([1, 7, 63, 200])) if x != 10) + b"\n"
        return f"{hx(line)}*{max(1, size // len(line))}+{hx(rand_bytes(rng, 5))}"
    if kind == "commands":
        line = rng.choice([b"REGISTER " + spell(rng, rng.randrange(3)).encode() + b"\n",
                           b"CONNECT " + peer_hex(6).encode() + b" " + peer_hex(rng.randrange(3)).encode() + b"\n",
                           b"PONG\n", b"REGISTER zz\n", b"CONNECT a b\r\n"])
        return f"{hx(line)}*{max(1, size // len(line))}+{hx(b'tail-without-newline')}"
    line = b"REGISTER " + peer_hex(rng.randrange(3)).encode() + b"\n"
    n = max(1, size // 3)
    return f"{hx(rand_bytes(rng, 16))}+{'%02x' % rng.randrange(256)}*{n}+{hx(line)}*{max(1, n // len(line))}+00*{n}"


def gen_burst(rng, big: bool) -> Case:
    """a connector sends its identity and 4 KiB … 64 KiB of data in ONE write (so the relay needs further recv() calls
    in the handle_read that bridged the session); identity whole / split across reads / CONNECT in the same write; the
    claimed target talks before the connector's identity has arrived"""
    nl = b"\n"
    tid, sid = rng.randrange(3), rng.choice([5, 6, 7])
    ops = ["acc 1", "acc 2"]
    extra = rng.random() < 0.4
    if extra:
        ops.append("acc 3")
    ops.append(snd(1, b"REGISTER " + peer_hex(tid).encode() + nl))
    con = b"CONNECT " + peer_hex(sid).encode() + b" " + peer_hex(tid).encode() + nl
    identity = rand_bytes(rng, 32)
    if rng.random() < 0.3:
        identity = b"\n" + identity[1:]
    size = rng.choice(BURST_SIZES if big else BURST_SIZES[:13])
    style = rng.choice(["whole", "whole", "split", "with-connect", "short-then-burst"])
    early_target_talk = rng.random() < 0.35
    if style == "with-connect":
        if early_target_talk:
            ops.append(snd(1, rng.choice([b"PONG\n", b"hello?\n", b"partial"])))
        ops.append(f"snd 2 {hx(con + identity)}+{burst_payload(rng, size)}")
    else:
        ops.append(snd(2, con))
        if early_target_talk:   # the claimed target sends while its connector is still in AwaitingIdentity
            ops.append(snd(1, rng.choice([b"PONG\n", b"data-too-early\n", b"partial", rand_bytes(rng, 40)])))
        if style == "whole":
            ops.append(f"snd 2 {hx(identity)}+{burst_payload(rng, size)}")
        elif style == "split":
            cut = rng.choice([1, 16, 31])
            ops.append(snd(2, identity[:cut]))
            if extra and rng.random() < 0.5:
                ops.append(snd(3, b"PONG\n"))
            ops.append(f"snd 2 {hx(identity[cut:])}+{burst_payload(rng, size)}")
        else:
            ops.append(snd(2, identity[:31]))
            ops.append(f"snd 2 {burst_payload(rng, size)}")
    # both directions afterwards
    for _ in range(rng.choice([1, 2, 3])):
        k = rng.choice([1, 2])
        ops.append(f"snd {k} {data_payload(rng)}")
    if extra:
        ops.append(snd(3, b"CONNECT " + peer_hex(7).encode() + b" " + peer_hex(tid).encode() + nl))
    order = [1, 2] + ([3] if extra else [])
    rng.shuffle(order)
    for k in order:
        if rng.random() < 0.85:
            ops.append(leave_op(rng, k))
    ops.append("nop")
    return Case(ops=ops, tag="burst/" + style)


def bulk_payload(rng, size: int) -> str:
    """`size` bytes in 3-6 differently filled stretches with random markers in between (a dropped, duplicated or
    reordered stretch changes length or hash)"""
    parts, left = [], size
    n = rng.choice([3, 4, 5, 6])
    for i in range(n):
        take = left if i == n - 1 else max(1, rng.randint(left // (2 * (n - i)), left // (n - i)))
        parts.append(hx(rand_bytes(rng, 12)))
        parts.append(f"{'%02x' % rng.randrange(256)}*{max(1, take - 12)}")
        left -= take
    return "+".join(parts)


STALL_SIZES = [70000, 100000, 131072, 200000, 262144, 300000, 400000]


def gen_stall(rng, big: bool) -> Case:
    """back-pressure: a bridged client stops reading while its partner pushes 70 KB .. 4 MiB through the bridge (tiny
    socket buffers, so the relay's send() returns short counts and it has to keep the rest), then reads again"""
    nl = b"\n"
    tid = rng.randrange(3)
    small = [rng.random() < 0.85, rng.random() < 0.85]
    ops = [("accs 1" if small[0] else "acc 1"), ("accs 2" if small[1] else "acc 2"),
           snd(1, b"REGISTER " + peer_hex(tid).encode() + nl),
           snd(2, b"CONNECT " + peer_hex(6).encode() + b" " + peer_hex(tid).encode() + nl),
           snd(2, rand_bytes(rng, 32) + rand_bytes(rng, rng.choice([0, 3, 40])))]
    if rng.random() < 0.5:
        ops.append(f"snd {rng.choice([1, 2])} {data_payload(rng, big_ok=False)}")
    for _ in range(rng.choice([1, 1, 2])):
        slow = rng.choice([1, 2])
        fast = 3 - slow
        ops.append(f"stall {slow}")
        sizes = STALL_SIZES + ([1048576, 1048576, 2097152, 4194304] if big else [])
        total = rng.choice(sizes)
        pieces = rng.choice([1, 1, 2, 3])
        for i in range(pieces):
            ops.append(f"snd {fast} {bulk_payload(rng, max(1000, total // pieces))}")
            if rng.random() < 0.3:
                ops.append(f"snd {slow} {data_payload(rng, big_ok=False)}")   # the other direction keeps working
            if rng.random() < 0.2:
                ops.append("nop")
        ops.append(f"resume {slow}")
        if rng.random() < 0.6:
            ops.append(f"snd {fast} {data_payload(rng)}")
        if rng.random() < 0.4:
            ops.append(f"snd {slow} {data_payload(rng)}")
    order = [1, 2]
    rng.shuffle(order)
    for k in order:
        if rng.random() < 0.9:
            ops.append(leave_op(rng, k))
    ops.append("nop")
    return Case(ops=ops, tag="stall")


def gen_stall_close(rng, variant: int = -1) -> Case:
    """a bridge side leaves while the relay still holds undelivered bytes for the other, stalled, side; then the stalled
    side resumes / never resumes / leaves too — every order and every kind of disconnect"""
    nl = b"\n"
    tid = rng.randrange(3)
    slow = rng.choice([1, 2])
    fast = 3 - slow
    kinds = ["eof", "shw", "rst", "hup"]
    ops = ["accs 1", "accs 2",
           snd(1, b"REGISTER " + peer_hex(tid).encode() + nl),
           snd(2, b"CONNECT " + peer_hex(6).encode() + b" " + peer_hex(tid).encode() + nl),
           snd(2, rand_bytes(rng, 32)),
           f"stall {slow}",
           f"snd {fast} {bulk_payload(rng, rng.choice([30000, 70000, 131072, 200000]))}"]
    if rng.random() < 0.3:
        ops.append(f"snd {slow} {data_payload(rng, big_ok=False)}")
    v = variant if variant >= 0 else rng.randrange(6)
    leave_fast = f"{rng.choice(kinds)} {fast}"
    leave_slow = f"{rng.choice(kinds)} {slow}"
    if v == 0:      # the fast side leaves, the slow one resumes and then leaves
        ops += [leave_fast, f"resume {slow}", leave_slow]
    elif v == 1:    # the fast side leaves, the slow one never resumes and never leaves by itself
        ops += [leave_fast, "nop"]
    elif v == 2:    # the fast side leaves, the slow one leaves without ever reading
        ops += [leave_fast, leave_slow]
    elif v == 3:    # the slow side leaves first (its backlog is dropped), then the fast one
        ops += [leave_slow, leave_fast]
    elif v == 4:    # the fast side leaves, the slow one resumes, talks on, leaves
        ops += [leave_fast, f"resume {slow}", snd(slow, b"anyone?\n"), leave_slow]
    else:           # resume first (backlog delivered), then both leave in either order
        ops += [f"resume {slow}"] + (rng.sample([leave_fast, leave_slow], 2))
    ops.append("nop")
    return Case(ops=ops, tag=f"stall-close/{v}")


def leave_op(rng, k: int) -> str:
    return f"{rng.choice(['eof', 'eof', 'eof', 'shw', 'rst', 'hup'])} {k}"


def interleave(rng, scripts: dict[int, list[list[str]]], phased: bool) -> list[str]:
    ops: list[str] = []
    if phased:
        for ph in range(5):
            queues = [list(s[ph]) for s in scripts.values() if s[ph]]
            while queues:
                q = rng.choice(queues)
                ops.append(q.pop(0))
                if not q:
                    queues.remove(q)
    else:
        queues = [[op for ph in s for op in ph] for s in scripts.values()]
        queues = [q for q in queues if q]
        while queues:
            q = rng.choice(queues)
            ops.append(q.pop(0))
            if not q:
                queues.remove(q)
    return ops


def gen_pairing(rng, shape: str, big: bool) -> Case:
    """targets and connectors over 2-5 clients and 1-3 ids"""
    nclients = rng.choice([2, 3, 3, 4, 4, 5]) if shape not in ("rereg", "spelling") else rng.choice([3, 4, 5])
    nids = rng.choice([1, 2, 3]) if shape != "spelling" else rng.choice([1, 1, 2])
    spelled = shape == "spelling"
    # spelling: the same 32-byte id written lower / UPPER / MiXed in REGISTER, CONNECT self and CONNECT target;
    # several connectors aim at one registered peer, each with its own spelling of the target
    modes = ["lower", "upper", "mixed"]
    rng.shuffle(modes)
    scripts: dict[int, list[list[str]]] = {}
    roles = {}
    ntargets = 1 if shape == "rereg" else (rng.choice([1, 1, 2]) if spelled else max(1, rng.randint(1, nclients - 1)))
    ntargets = min(ntargets, nclients - 2) if spelled else ntargets
    if shape == "dup":
        nids = 1
        ntargets = max(2, min(ntargets, nclients - 1)) if nclients > 2 else 1
    ops = []
    order = list(range(1, nclients + 1))
    for k in order:
        if k <= ntargets:
            ident = rng.randrange(nids)
            roles[k] = ("t", ident)
            scripts[k] = target_script(rng, k, ident, rereg=0.9 if shape == "rereg" else (0.25 if shape in ("mixed", "spelling") else 0.1),
                                       chatter=0.3, spelled=spelled)
        else:
            tid = rng.randrange(nids)
            sid = tid if (shape in ("selfconn", "spelling") and rng.random() < (0.5 if shape == "selfconn" else 0.3)) else rng.choice([5, 6, 7])
            roles[k] = ("c", tid)
            scripts[k] = connector_script(rng, k, sid, tid, spelled=spelled,
                                          target_mode=modes[(k - ntargets - 1) % 3] if spelled and rng.random() < 0.8 else "")
    if shape == "selfconn":
        # a registered session tries to CONNECT (to itself / to another id)
        k = 1
        scripts[k][1].append(snd(k, b'CONNECT ' + peer_hex(6).encode() + b' ' + peer_hex(roles[k][1]).encode() + b'\n'))
    accs = [f"acc {k}" for k in order]
    rng.shuffle(accs)
    late = []
    if rng.random() < 0.3 and len(accs) > 2:
        late = [accs.pop()]
    body = interleave(rng, scripts, phased=rng.random() < 0.65)
    if late:
        k = int(late[0].split()[1])
        first = next((i for i, op in enumerate(body) if op.split()[1] == str(k)), len(body))
        body.insert(rng.randint(0, first), late[0])
    ops = accs + body
    # disconnects: at a random stage for some clients, at the end for the rest
    leavers = list(order)
    rng.shuffle(leavers)
    early = [k for k in leavers if rng.random() < (0.45 if shape == "stage" else 0.15)]
    for k in early:
        after_acc = next(i for i, op in enumerate(ops) if op == f"acc {k}")
        ops.insert(rng.randint(after_acc + 1, len(ops)), leave_op(rng, k))
    if rng.random() < 0.85:
        for k in leavers:
            if k not in early and rng.random() < 0.9:
                ops.append(leave_op(rng, k))
    ops.append("nop")
    return Case(ops=ops, tag=shape + ("/big" if big else ""))


MALFORMED = [
    b"\n", b"\r\n", b"\r", b" ", b"  \n", b"REGISTER\n", b"REGISTER \n", b"REGISTER  " + peer_hex(0).encode() + b"\n",
    b"REGISTER " + peer_hex(0).encode()[:63] + b"\n", b"REGISTER " + peer_hex(0).encode() + b"0\n",
    b"REGISTER " + peer_hex(0).encode()[:62] + b"zz\n", b"REGISTER " + peer_hex(0).encode() + b" x\n",
    b"register " + peer_hex(0).encode() + b"\n", b"CONNECT\n", b"CONNECT \n", b"CONNECT " + peer_hex(1).encode() + b"\n",
    b"CONNECT a b c\n", b"CONNECT zz " + peer_hex(0).encode() + b"\n", b"CONNECT " + peer_hex(0).encode() + b" " + peer_hex(0).encode() + b"\n",
    b"CONNECT " + peer_hex(1).encode() + b" " + peer_hex(0).upper().encode() + b"\n", b"CONNECT\t" + peer_hex(1).encode() + b" " + peer_hex(0).encode() + b"\n",
    b"PONG\n", b"PONG x\n", b"PING\n", b"BEGIN " + peer_hex(1).encode() + b"\n", b"\x00\n", b"\x00\xff\xfe\n", b"REGISTER " + b"\x00" * 64 + b"\n",
    b"\xff" * 40, b"A" * 100, b"\n\n\n\n", b"OK\n", b"ERROR x\n", b"REGISTER " + peer_hex(2).upper().encode() + b"\r\n",
]


def gen_malformed(rng, big: bool, huge: bool = False) -> Case:
    """arbitrary byte streams from 1-4 clients, a well-behaved pair in between, every client leaves"""
    n = rng.choice([1, 2, 3, 4])
    ops = [f"acc {k}" for k in range(1, n + 1)]
    alive = list(range(1, n + 1))
    steps = rng.randint(4, 14) if not big else rng.randint(12, 40)
    did_huge = False
    for _ in range(steps):
        if not alive:
            break
        k = rng.choice(alive)
        r = rng.random()
        if r < 0.45:
            ops.append(snd(k, rng.choice(MALFORMED)))
        elif r < 0.60:
            ops.append(snd(k, rand_bytes(rng, rng.choice([1, 2, 7, 31, 32, 33, 64, 200]))))
        elif r < 0.72:
            size = rng.choice(BOUNDARY_SIZES[7:] + [65536])
            if huge and not did_huge:
                size = 1048576
                did_huge = True
            tail = rng.choice(["", "+0a", "+0d0a", "+20"])
            ops.append(f"snd {k} {'%02x' % rng.choice([0x41, 0x20, 0x00, 0xff, 0x61])}*{size}{tail}")
        elif r < 0.80:
            ops.append(snd(k, b'REGISTER ' + peer_hex(rng.randrange(2)).encode() + b'\n'))
        elif r < 0.88:
            ops.append(snd(k, b'CONNECT ' + peer_hex(5).encode() + b' ' + peer_hex(rng.randrange(2)).encode() + b'\n'))
        elif r < 0.93:
            ops.append(snd(k, rand_bytes(rng, rng.choice([5, 16, 32, 40]))))
        else:
            ops.append(leave_op(rng, k))
            alive.remove(k)
    rng.shuffle(alive)
    for k in alive:
        ops.append(leave_op(rng, k))
    ops.append("nop")
    return Case(ops=ops, tag="malformed" + ("/huge" if did_huge else ""))


def gen_orders(kinds=("eof", "hup")) -> list[Case]:
    """every disconnect order (and kind) of four clients: an established bridge (1 target, 2 connector),
    a claimed-but-not-yet-bridged pair (3 target, 4 connector)"""
    import itertools
    nl = b"\n"
    setup = ["acc 1", "acc 2", "acc 3", "acc 4",
             snd(1, b"REGISTER " + peer_hex(0).encode() + nl), snd(3, b"REGISTER " + peer_hex(1).encode() + nl),
             snd(2, b"CONNECT " + peer_hex(5).encode() + b" " + peer_hex(0).encode() + nl),
             snd(4, b"CONNECT " + peer_hex(6).encode() + b" " + peer_hex(1).encode() + nl),
             "snd 2 " + "11" * 32 + "+" + hx(b"hi"), snd(1, b"yo")]
    out = []
    for perm in itertools.permutations([1, 2, 3, 4]):
        for ks in itertools.product(kinds, repeat=4):
            ops = list(setup) + [f"{ks[i]} {perm[i]}" for i in range(4)] + ["nop"]
            out.append(Case(ops=ops, tag="orders"))
    return out


# --------------------------------------------------------------------------------------
# The check
# --------------------------------------------------------------------------------------

PAIRING_SHAPES = ["mixed", "mixed", "rereg", "rereg", "dup", "selfconn", "stage", "stage", "spelling", "spelling"]


def generate(ctx, budget):
    cases = []
    thorough = ctx.tier == "thorough"
    for i in range(budget):
        r = ctx.rng.random()
        if r < 0.75:
            cases.append(gen_pairing(ctx.rng, ctx.rng.choice(PAIRING_SHAPES), thorough and i % 5 == 0))
        elif r < 0.85:
            cases.append(gen_burst(ctx.rng, thorough))
        elif r < 0.89:
            cases.append(gen_stall(ctx.rng, thorough and i % 40 == 0))
        elif r < 0.92:
            cases.append(gen_stall_close(ctx.rng))
        else:
            cases.append(gen_malformed(ctx.rng, thorough and i % 5 == 0))
    if thorough:
        cases += gen_orders(("eof", "hup"))
    return cases


def nontrivial(r: CaseResult) -> bool:
    """DESIGN §9: a relay history counts only if a bridge is established"""
    return any(".B." in line for line in r.impl)


def post(ctx, results):
    bridged = sum(1 for r in results if any(".B." in l for l in r.impl))
    relayed = sum(1 for r in results if any(".B." in l and "rx=-" not in l for l in r.impl))
    claimed_twice = sum(1 for r in results if any("already-claimed".encode().hex() in l for l in r.impl))
    teardown = sum(1 for r in results if any(".B." in a and "cl=-" not in b for a, b in zip(r.impl, r.impl[1:])))
    ctx.hist("shape:bridge-established", bridged)
    ctx.hist("shape:bytes-relayed", relayed)
    ctx.hist("shape:re-register-of-claimed-peer-refused", claimed_twice)
    ctx.hist("shape:bridge-torn-down-by-server", teardown)


def spec() -> Spec:
    return Spec(
        pid=PID,
        proof_modules=["EphVerif.Proofs.C25"],
        driver="drv_c25",
        harness=harness,
        generate=generate,
        extract=extract,
        nontrivial=nontrivial,
        post=post,
        budget={"quick": 600, "thorough": 10000},
        search_budget={"quick": 2500, "thorough": 25000},
        per_case_timeout=40.0,
        rule="interleavings of REGISTER/CONNECT/identity/data/disconnect scripts of 2-5 clients over 1-3 peer ids against the real "
             "RelayServer on loopback sockets (harness-scheduled events, drained after every op): re-registration of a claimed peer, "
             "one peer id spelled lower/UPPER/MiXed across REGISTER, CONNECT self and CONNECT target with several connectors per peer, "
             "identity + 4 KiB..64 KiB of pipelined data in one write (no newline / newlines / command look-alikes; identity whole, "
             "split (also with newlines / command look-alikes in the first fragment), or behind CONNECT; target talking before the "
             "identity arrives), back-pressure (a bridged client with 4 KiB socket "
             "buffers stops reading while its partner pushes 70 KB..400 KB, thorough up to 4 MiB, then reads again: the relay gets "
             "short writes), "
             "duplicate ids, CONNECT from registered sessions, self-connect, pipelined and fragmented commands/identity, payloads around "
             "4096/16384, disconnect (FIN, half-close, RST, HUP) at every stage; plus malformed streams; distinct = sha256 of the op list; "
             "non-trivial = a bridge is established",
        trusted_base=["kernel TCP/loopback semantics; recv() chunking reproduced by waiting (FIONREAD) until each 16 KiB slice has arrived",
                      "the event loop itself is not run: the harness calls accept_new_clients()/on_client_event() (EventLoop::run dispatch, "
                      "and epoll readiness are outside the correspondence); partial writes happen for clients accepted with 4 KiB socket buffers "
                      "and for stalled readers, with kernel-chosen split points (the model's `flush c n`; theorems cover every split)",
                      "the session table printed by the harness is read from private members (sessions_, registered_, partner, state)"],
        assumptions=["a client index names one accepted connection for the whole history (descriptor reuse is invisible through weak_ptr)",
                     "send() errors are not provoked by the harness (modelled as event `err`)"],
    )


def run(tier, seed, replay=None):
    return standard_check(spec(), tier, seed, replay)
