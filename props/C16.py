"""C16 — protocol decoding is total and memory-safe; accepted fields are taken verbatim."""
from tools.vlib import *
from props import C15 as base
from props.C15 import (KINDS, TAG, U32, U64, Msg, accepted, hexs, py_encode, rand_key, rand_msg)
import hashlib
import hmac as _hmac

PID = "C16"
READY = True
MANIFEST = {
    "level_text": "Lean 4 theorems about a model of Message.cpp's decode/decode_signed in which every pointer access and span cut of the C++ is a checked read whose failure is an explicit `oob` outcome: for every byte string, key and MAC function neither decoder (nor the inner parsers on any span) ever yields `oob` (total, total_inner; the functions are plain total definitions, so termination is by construction), and whenever decode accepts, encode of the result is a prefix of the input (reencode_prefix, prefix_signed); the size_t sums formed from 32-bit length fields stay below 2^64 (sizes_fit), so the Nat arithmetic of the model is the code's on LP64. Tied to the code by regenerated constants and by a differential run of the real decoders, in exactly-sized heap buffers under ASan+UBSan, against the compiled model on a malformed stream (all truncations, single-bit flips, extensions, length fields near 2^32, flag/version/type bytes 0..255, random bytes), with the Lean specification checking the prefix law on the implementation's own re-encoding.",
    "level_note": 'Partial in one respect: memory safety and absence of UB of the real binary are observed by ASan/UBSan on the generated inputs and proved only for the model; std::bad_alloc from vector/string growth is outside the model. Trusted: Lean kernel, the hand transcription (validated by the differential run), LP64. Holds on the tree with fixes/C16-canonical-flag-byte.patch and fixes/C15-announce-nonce-v3.patch (unrepaired, flag bytes >= 2 break the prefix law; reported with a replay).',
    "technique": "Lean 4 proof (checked-read model, all byte strings) + ASan/UBSan differential correspondence with Lean monitor",
}


def sign(key: bytes, body: bytes) -> bytes:
    """manufactures correctly tagged inputs (generator side; the monitor recomputes the tag in Lean)"""
    return body + _hmac.new(key, body, hashlib.sha256).digest()


def ops_for(buf: bytes, key: bytes = b"k", signed: bool = False) -> list[str]:
    h = hexs(buf)
    ops = [f"dec {h}", f"reenc {h}"]
    if signed:
        ops.append(f"decs {hexs(key)} {hexs(sign(key, buf))}")
    return ops


def be4(n: int) -> bytes:
    return (n % U32).to_bytes(4, "big")


LEN_EDGES = [U32 - 1, U32 - 2, U32 - 8, U32 - 64, U32 - 72, U32 - 80, U32 - 88, 1 << 31, (1 << 31) - 1, 1 << 24, 65536, 65535, 256, 255]


def gen_case(rng, shape: str, big: bool) -> Case:
    kind = rng.choice(KINDS)
    ops: list[str] = []
    if shape == "truncate":
        m = rand_msg(rng, kind, rng.choice([1, 2, 3, 4]), size="small")
        buf = py_encode(m)
        key = rand_key(rng)
        for n in range(len(buf) + 1):
            ops += ops_for(buf[:n], key, signed=(n % 7 == 0))
    elif shape == "extend":
        m = rand_msg(rng, kind, rng.choice([1, 2, 3, 4]), size="small")
        buf = py_encode(m)
        for n in [1, 2, 3, 7, 8, 9, 31, 32, 33, 64]:
            ops += ops_for(buf + rng.randbytes(n), rand_key(rng), signed=(n in (8, 32)))
    elif shape == "bitflip":
        m = rand_msg(rng, kind, rng.choice([1, 2, 3, 4]), size="small")
        buf = py_encode(m)
        if len(buf) > 200:
            buf = py_encode(rand_msg(rng, rng.choice(["req", "ack", "hs", "hsa"]), rng.choice([1, 2, 3, 4])))
        positions = range(len(buf) * 8) if big or len(buf) <= 80 else sorted(rng.sample(range(len(buf) * 8), 640))
        for bit in positions:
            b = bytearray(buf)
            b[bit // 8] ^= 1 << (bit % 8)
            ops += ops_for(bytes(b))
    elif shape == "lenfield":
        kind = rng.choice(["ann", "chk"])
        m = rand_msg(rng, kind, rng.choice([1, 2, 3, 4]), size="small")
        buf = bytearray(py_encode(m))
        offs = [6, 10, 14] if kind == "ann" else [6]
        for _ in range(24):
            b = bytearray(buf)
            for off in offs:
                r = rng.random()
                cur = int.from_bytes(b[off:off + 4], "big")
                if r < 0.45:
                    v = rng.choice(LEN_EDGES)
                elif r < 0.75:
                    v = max(0, cur + rng.choice([-2, -1, 1, 2, 8, 9]))
                else:
                    v = cur
                b[off:off + 4] = be4(v)
            if kind == "ann" and rng.random() < 0.3:
                # three lengths whose 32-bit sum wraps to the true total
                tot = sum(int.from_bytes(buf[o:o + 4], "big") for o in offs)
                a = rng.choice(LEN_EDGES)
                c = rng.choice(LEN_EDGES)
                b[6:10], b[10:14], b[14:18] = be4(a), be4(c), be4(tot - a - c)
            ops += ops_for(bytes(b), rand_key(rng), signed=rng.random() < 0.2)
    elif shape == "random":
        for _ in range(40):
            n = rng.choice([0, 1, 2, 3, 5, 6, 7, 8, 14, 15, 16, 33, 34, 35, 63, 64, 65, 66, 67, 81, 82, 83, 89, 90, 91, 120, 300])
            b = bytearray(rng.randbytes(n))
            if n >= 1 and rng.random() < 0.8:
                b[0] = rng.choice([1, 2, 3, 4])
            if n >= 2 and rng.random() < 0.8:
                b[1] = rng.choice([1, 2, 3, 4, 5, 6])
            if n >= 18 and b[1] == 1 and rng.random() < 0.7:
                for off in (6, 10, 14):
                    b[off:off + 4] = be4(rng.choice([0, 0, 1, 2, 5, 8]))
            if n >= 10 and b[1] == 3 and rng.random() < 0.7:
                b[6:10] = be4(rng.choice([0, 1, 2, 8, n - 42 if n >= 42 else 0]))
            ops += ops_for(bytes(b), rand_key(rng), signed=rng.random() < 0.25)
    elif shape == "flag":
        kind = rng.choice(["ack", "hsa"])
        m = rand_msg(rng, kind, rng.choice([1, 2, 3, 4]))
        buf = bytearray(py_encode(m))
        vals = range(256) if big else [0, 1, 2, 3, 127, 128, 254, 255] + [rng.randrange(256) for _ in range(8)]
        for v in vals:
            buf[2] = v
            ops += ops_for(bytes(buf))
    elif shape == "header":
        m = rand_msg(rng, kind, 4, size="small")
        buf = bytearray(py_encode(m))
        body3 = bytearray(py_encode(Msg(3, m.type, m.kind, m.f)))
        for v in (range(256) if big else [0, 1, 2, 3, 4, 5, 6, 127, 128, 255]):
            for t in ([0, 1, 2, 3, 4, 5, 6, 7, 8, 128, 255] if not big else [0, 1, 2, 3, 4, 5, 6, 7, 255]):
                b = bytearray(buf if rng.random() < 0.7 else body3)
                b[0], b[1] = v, t
                ops += ops_for(bytes(b))
    else:  # "valid": decoding of well-formed buffers of every kind (accept paths)
        for _ in range(6):
            m = rand_msg(rng, rng.choice(KINDS), rng.choice([1, 2, 3, 4]), size=rng.choice(["small", "small", "edge"]))
            ops += ops_for(py_encode(m), rand_key(rng), signed=True)
    return Case(ops=ops, tag=f"{shape}/{kind}")


SHAPES = ["truncate", "truncate", "extend", "bitflip", "lenfield", "lenfield", "random", "random", "flag", "header", "valid"]


def generate(ctx, budget):
    rng = ctx.rng
    cases = []
    i = 0
    while len(cases) < budget:
        shape = SHAPES[i % len(SHAPES)]
        cases.append(gen_case(rng, shape, ctx.tier == "thorough" and i % 5 == 0))
        i += 1
    return cases


_seen_reject_shapes: set = set()


def nontrivial(r: CaseResult) -> bool:
    """DESIGN §9 rule for codecs: the case contains an input that decodes, or it is the first case
    of its shape (a reject path not exercised before in this run)"""
    if any(accepted(o) for o in r.impl):
        return True
    if r.case.tag not in _seen_reject_shapes:
        _seen_reject_shapes.add(r.case.tag)
        return True
    return False


def spec() -> Spec:
    return Spec(
        pid=PID,
        proof_modules=["EphVerif.Proofs.C16"],
        driver="drv_c16",
        harness=base.harness,
        generate=generate,
        extract=base.extract,
        nontrivial=nontrivial,
        budget={"quick": 330, "thorough": 6000},
        divergence_is_violation=True,
        rule="malformed stream over valid encodings of all six kinds: every truncation, extension by 1..64 bytes, every single-bit "
             "flip (all positions for buffers <= 80 B in quick, <= 200 B in thorough), announce/chunk length fields replaced by values "
             "near 2^32 / +-1,2,8 / triples whose 32-bit sum wraps, flag bytes 0..255, version x type header bytes, random bytes with "
             "plausible headers, plus valid buffers; each buffer goes through dec, reenc and (sampled) decs with a correct tag, in "
             "exactly-sized heap blocks under ASan+UBSan; non-trivial = some input accepted, or first case of its shape",
        trusted_base=base.TRUSTED + ["memory safety of the real binary is observed with ASan/UBSan on the generated inputs; it is proved only for the model (checked reads never fail)"],
        assumptions=["std::size_t is 64 bits (LP64): the length sums of the decoder cannot wrap (Lemmas/C16Size.lean)"],
    )


def run(tier, seed, replay=None):
    return standard_check(spec(), tier, seed, replay)
